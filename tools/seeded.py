#!/usr/bin/env python3
"""Confirm and evaluate seeded changes produced by independent sub-agents.

  tools/seeded.py ingest /tmp/seedout/C01/a  [--id C01a]   confirm (patch applies, repo tests pass, demo fails with / passes without) and store under /verif/seeded/<id>/
  tools/seeded.py run [-k C01] [--tier quick|thorough]      run the property's check against every stored seeded change (scratch copy of /repo), report caught/missed

Nothing is ever applied to /repo itself: every run uses a scratch copy under /tmp that is removed afterwards.
"""
import json, os, shutil, subprocess, sys, time, glob

ENV = dict(os.environ, GOFLAGS="-mod=mod", GOPROXY="off", GOSUMDB="off", GOTOOLCHAIN="local")
SEEDED = "/verif/seeded"

def _clean_logs(out):
    """remove the per-run work directory a failing check leaves behind (sensitivity runs only)"""
    import re as _re, shutil as _sh
    for m in _re.finditer(r"^logs: (/verif/\.build/run-[^\s]+)$", out or "", _re.M):
        _sh.rmtree(m.group(1), ignore_errors=True)


def sh(cmd, cwd=None, env=None, timeout=7200):
    r = subprocess.run(cmd, cwd=cwd, env=env or ENV, stdout=subprocess.PIPE, stderr=subprocess.STDOUT, text=True, errors="replace", timeout=timeout)
    return r.returncode, r.stdout

def scratch(tag):
    d = "/tmp/verif-seed-%s-%d" % (tag, os.getpid())
    shutil.rmtree(d, ignore_errors=True)
    os.makedirs(d)
    repo = os.path.join(d, "repo")
    subprocess.run(["rsync", "-a", "--exclude", ".git", "/repo/", repo + "/"], check=True)
    subprocess.run(["git", "init", "-q"], cwd=repo)
    return d, repo

def demo_files(src):
    return [f for f in os.listdir(src) if f.endswith(".go")]

def run_demo(repo, src, meta):
    files = demo_files(src)
    ddir = meta.get("demo_dir", ".").strip("./") or "."
    if "internal/hmac" in meta.get("demo_cmd", "") and ddir == ".":
        ddir = "internal/hmac"
    target = os.path.join(repo, ddir)
    for f in files:
        shutil.copy(os.path.join(src, f), os.path.join(target, f))
    cmd = meta.get("demo_cmd", "")
    # normalise: run the named test in the repo root
    import re
    m = re.search(r"-run[ =]+'?\"?([^ '\"]+)", cmd)
    name = m.group(1) if m else "."
    args = ["go", "test", "-count=1", "-vet=off", "-run", name, "./" + ddir]
    if "-race" in cmd:
        args.insert(2, "-race")
    if "-tags debug" in cmd or "-tags=debug" in cmd:
        args[2:2] = ["-tags", "debug"]
    rc, out = sh(args, cwd=repo, timeout=900)
    for f in files:
        os.remove(os.path.join(target, f))
    return rc, out

def ingest(src, sid):
    meta = json.load(open(os.path.join(src, "meta.json")))
    prop = meta["property"]
    d, repo = scratch(sid)
    try:
        report = {}
        rc, out = run_demo(repo, src, meta)
        report["demo_without_patch"] = "pass" if rc == 0 else "FAIL"
        rc, out = sh(["git", "apply", os.path.abspath(os.path.join(src, "patch.diff"))], cwd=repo)
        if rc != 0:
            print(sid, "patch does not apply:", out[-300:]); return False
        rc, out = sh(["go", "build", "./..."], cwd=repo)
        report["builds"] = rc == 0
        # The repository's own TestClientGC can hang on the unchanged tree (its fake agent blocks in
        # Collect when a second 1 ms tick fires before Close; same ordering in the pinned snapshot), so a
        # run that dies of the test timeout inside TestClientGC is repeated - any other failure counts.
        oks, runs, gcflakes = 0, 0, 0
        while oks < 2 and runs < 5:
            runs += 1
            rc, out = sh(["go", "test", "-count=1", "-vet=off", "-timeout", "180s", "./..."], cwd=repo, timeout=1800)
            if rc != 0 and "TestClientGC" in out and ("test timed out" in out or "SIGQUIT" in out):
                gcflakes += 1
                continue
            if rc != 0:
                break
            oks += 1
        report["repo_tests_with_patch"] = "pass x%d/%d" % (oks, runs - gcflakes)
        if gcflakes:
            report["repo_TestClientGC_hangs_ignored"] = gcflakes
        fails = 0
        for i in range(3):
            rc, out = run_demo(repo, src, meta)
            fails += rc != 0
        report["demo_with_patch"] = "fails %d/3" % fails
        ok = report["demo_without_patch"] == "pass" and report["builds"] and oks == 2 and fails >= 1
        print(sid, "CONFIRMED" if ok else "REJECTED", report, flush=True)
        if not ok:
            return False
        dst = os.path.join(SEEDED, sid)
        shutil.rmtree(dst, ignore_errors=True)
        os.makedirs(dst)
        shutil.copy(os.path.join(src, "patch.diff"), dst)
        for f in demo_files(src):
            shutil.copy(os.path.join(src, f), dst)
        meta["id"] = sid
        meta["breaks_property"] = prop
        meta["confirmed_by_harness_author"] = report
        meta["confirmed_how"] = "scratch copy of /repo (rsync, outside /repo and /verif): demo run without the patch, git apply patch.diff, go build, repository test suite twice, demo three times; scratch copy removed afterwards"
        json.dump(meta, open(os.path.join(dst, "meta.json"), "w"), indent=1)
        return True
    finally:
        shutil.rmtree(d, ignore_errors=True)

def run_one(sid, tier, props=None):
    dst = os.path.join(SEEDED, sid)
    meta = json.load(open(os.path.join(dst, "meta.json")))
    plist = props or [meta["breaks_property"]]
    d, repo = scratch(sid)
    res = {}
    try:
        rc, out = sh(["git", "apply", os.path.join(dst, "patch.diff")], cwd=repo)
        if rc != 0:
            return {p: "patch-does-not-apply" for p in plist}
        for prop in plist:
            t0 = time.time()
            rc, out = sh(["/verif/check", prop, tier], cwd="/verif", env=dict(ENV, VERIF_REPO=repo))
            _clean_logs(out)
            caught = rc == 1 and ("VIOLATION property=%s" % prop) in out
            line = [l for l in out.splitlines() if l.startswith("  ")][:1]
            res[prop] = ("CAUGHT" if caught else "MISSED(rc=%d)" % rc) + " %.0fs %s" % (time.time() - t0, (line[0][:160] if line else ""))
            if not caught and rc == 2:
                res[prop] += "\n" + out[-800:]
        return res
    finally:
        shutil.rmtree(d, ignore_errors=True)

def main():
    a = sys.argv[1:]
    if a and a[0] == "ingest":
        src = a[1]
        sid = None
        if "--id" in a:
            sid = a[a.index("--id") + 1]
        else:
            parts = src.rstrip("/").split("/")
            sid = parts[-2] + parts[-1]
        return 0 if ingest(src, sid) else 1
    if a and a[0] == "run":
        filt = a[a.index("-k") + 1] if "-k" in a else None
        tier = a[a.index("--tier") + 1] if "--tier" in a else "quick"
        props = a[a.index("--props") + 1].split(",") if "--props" in a else None
        jobs = int(a[a.index("-j") + 1]) if "-j" in a else 3
        ids = sorted(os.listdir(SEEDED)) if os.path.isdir(SEEDED) else []
        ids = [i for i in ids if (not filt or filt in i) and os.path.isdir(os.path.join(SEEDED, i))]
        from concurrent.futures import ThreadPoolExecutor
        rows = []
        with ThreadPoolExecutor(jobs) as ex:
            for sid, res in zip(ids, ex.map(lambda s: run_one(s, tier, props), ids)):
                for p, r in res.items():
                    print("%-8s %-4s %s" % (sid, p, r), flush=True)
                    rows.append((sid, p, r))
        if "--append" in a:
            # add / replace the rows of the selected changes in RESULTS.md (for rounds evaluated after a full run)
            path = os.path.join(SEEDED, "RESULTS.md")
            lines = open(path).read().splitlines()
            done = {sid for sid, _, _ in rows}
            lines = [l for l in lines if not (l.startswith("| ") and l.split("|")[1].strip() in done)]
            for sid, p, r in rows:
                meta = json.load(open(os.path.join(SEEDED, sid, "meta.json")))
                verdict = r.split()[0]
                detail = " ".join(r.split()[2:])[:140].replace("|", "/")
                lines.append("| %s | %s | %s | %s | %s |" % (sid, p, meta.get("needs", "")[:200].replace("|", "/").replace("\n", " "), verdict, detail))
            open(path, "w").write("\n".join(lines) + "\n")
        if "--write" in a:
            with open(os.path.join(SEEDED, "RESULTS.md"), "w") as f:
                f.write("# Seeded changes: result of `tools/seeded.py run --tier %s --write`\n\n" % tier)
                f.write("Each change was produced by an independent sub-agent from the property text only, confirmed by\n"
                        "`tools/seeded.py ingest` (see meta.json), applied to a scratch copy of /repo and checked with `./check <property> %s`.\n\n" % tier)
                f.write("| id | property | what it needs to manifest | verdict | first line of the violation |\n|---|---|---|---|---|\n")
                for sid, p, r in rows:
                    meta = json.load(open(os.path.join(SEEDED, sid, "meta.json")))
                    verdict = r.split()[0]
                    detail = " ".join(r.split()[2:])[:140].replace("|", "/")
                    f.write("| %s | %s | %s | %s | %s |\n" % (sid, p, meta.get("needs", "")[:200].replace("|", "/").replace("\n", " "), verdict, detail))
        return 0
    print(__doc__)
    return 2

if __name__ == "__main__":
    sys.exit(main())
