#!/usr/bin/env python3
"""Systematic mutation pass over the anchored source files of pion/stun.

For every mutation site (relational operator swap, && <-> ||, statement deletion, constant +-1)
one mutant is built in a scratch copy of /repo; mutants that compile are first shown to the
repository's own tests (to separate what the existing suite already kills), then to the quick
checks of the properties anchored in that file, stopping at the first VIOLATION.

  tools/automutate.py [-j N] [--files f1,f2] [--limit N] [--out file]

Survivors are candidates for blind spots (or equivalent mutants) and are listed at the end.
Nothing is applied to /repo itself.
"""
import json, os, re, shutil, subprocess, sys, time
from concurrent.futures import ThreadPoolExecutor

ENV = dict(os.environ, GOFLAGS="-mod=mod", GOPROXY="off", GOSUMDB="off", GOTOOLCHAIN="local")

FILE_PROPS = {
    "message.go": ["C02", "C03", "C01", "C08", "C19", "C20"],
    "attributes.go": ["C02", "C01", "C03"],
    "helpers.go": ["C09", "C02", "C03", "C07"],
    "integrity.go": ["C04", "C07", "C09", "C03", "C20"],
    "fingerprint.go": ["C05", "C07", "C03", "C20"],
    "checks.go": ["C09", "C04", "C05", "C07"],
    "xoraddr.go": ["C06", "C07", "C09", "C20"],
    "addr.go": ["C06", "C07", "C09", "C20"],
    "textattrs.go": ["C06", "C09", "C07"],
    "errorcode.go": ["C06", "C09", "C07"],
    "uattrs.go": ["C06", "C07"],
    "agent.go": ["C13", "C14"],
    "client.go": ["C10", "C11", "C15", "C12", "C17"],
    "uri.go": ["C17", "C16"],
    "internal/hmac/hmac.go": ["C18", "C04"],
    "internal/hmac/pool.go": ["C18", "C04", "C20"],
}

REL = [("<=", "<"), ("<", "<="), (">=", ">"), (">", ">="), ("==", "!="), ("!=", "==")]


def sites(path, text):
    """Yield (line_no, description, new_text)."""
    lines = text.split("\n")
    in_block_comment = False
    for i, line in enumerate(lines):
        code = line.split("//")[0]
        stripped = code.strip()
        if not stripped or stripped.startswith("*") or stripped.startswith("/*"):
            continue
        if "nolint" in line and "panic" in line:
            continue
        # relational operators (avoid generics / arrows / shifts / :=)
        for m in re.finditer(r"(?<![<>=!:+\-*/&|^])(<=|>=|==|!=|<|>)(?![<>=])", code):
            op = m.group(1)
            if op in ("<", ">") and (code[m.start() - 1:m.start()] == "-" or code[m.end():m.end() + 1] == "-"):
                continue  # channel arrows
            for a, b in REL:
                if a == op:
                    new = line[:m.start()] + b + line[m.end():]
                    yield i, "%s -> %s" % (a, b), "\n".join(lines[:i] + [new] + lines[i + 1:])
        for a, b in (("&&", "||"), ("||", "&&")):
            for m in re.finditer(re.escape(a), code):
                new = line[:m.start()] + b + line[m.end():]
                yield i, "%s -> %s" % (a, b), "\n".join(lines[:i] + [new] + lines[i + 1:])
        # small integer constants +-1 (in expressions, not in const type names)
        for m in re.finditer(r"(?<![\w.\"])(\d+)(?![\w.\"])", code):
            v = int(m.group(1))
            if v > 70000 or "0x" in code[max(0, m.start() - 2):m.start()]:
                continue
            for nv in (v + 1, v - 1):
                if nv < 0:
                    continue
                new = line[:m.start()] + str(nv) + line[m.end():]
                yield i, "%d -> %d" % (v, nv), "\n".join(lines[:i] + [new] + lines[i + 1:])
        # statement deletion: simple statements on their own line
        if re.match(r"^\t+[\w.\[\]()&*]+ (=|\+=|-=) .+[^{,(]$", line) or re.match(r"^\t+(delete|copy)\(.+\)$", line) or \
           re.match(r"^\t+[\w.]+\.(WriteLength|WriteHeader|WriteType|WriteTransactionID|Reset|Wait|Broadcast)\(\)$", line):
            yield i, "delete statement", "\n".join(lines[:i] + lines[i + 1:])


def _clean_logs(out):
    """remove the per-run work directory a failing check leaves behind (sensitivity runs only)"""
    import re as _re, shutil as _sh
    for m in _re.finditer(r"^logs: (/verif/\.build/run-[^\s]+)$", out or "", _re.M):
        _sh.rmtree(m.group(1), ignore_errors=True)


def sh(cmd, cwd=None, env=None, timeout=3600):
    # own process group, so that a timeout also removes grandchildren (test binaries of a check)
    import signal
    p = subprocess.Popen(cmd, cwd=cwd, env=env or ENV, stdout=subprocess.PIPE, stderr=subprocess.STDOUT, text=True, errors="replace", start_new_session=True)
    try:
        out, _ = p.communicate(timeout=timeout)
        return p.returncode, out
    except subprocess.TimeoutExpired:
        try:
            os.killpg(p.pid, signal.SIGKILL)
        except OSError:
            pass
        p.wait()
        return -9, "timeout"


def run_mutant(job):
    idx, f, line_no, desc, new_text, orig_line = job
    scratch = "/tmp/verif-am-%d-%d" % (os.getpid(), idx)
    shutil.rmtree(scratch, ignore_errors=True)
    os.makedirs(scratch)
    repo = os.path.join(scratch, "repo")
    try:
        subprocess.run(["rsync", "-a", "--exclude", ".git", "/repo/", repo + "/"], check=True)
        open(os.path.join(repo, f), "w").write(new_text)
        rc, out = sh(["go", "build", "./..."], cwd=repo)
        if rc != 0:
            return dict(idx=idx, file=f, line=line_no + 1, desc=desc, src=orig_line.strip(), status="nocompile")
        rc, out = sh(["go", "vet", "./..."], cwd=repo)  # unused variables etc. are compile errors in tests
        rc, out = sh(["go", "test", "-count=1", "-vet=off", "-timeout", "120s", "./..."], cwd=repo, timeout=200)
        suite = "suite-kills" if rc != 0 else "suite-passes"
        caught_by = None
        for prop in FILE_PROPS[f]:
            rc, out = sh(["/verif/check", prop, "quick"], cwd="/verif", env=dict(ENV, VERIF_REPO=repo, VERIF_WORKER_TIMEOUT="240"), timeout=600)
            _clean_logs(out)
            if rc == 1 and "VIOLATION property=%s" % prop in out:
                caught_by = prop
                break
        return dict(idx=idx, file=f, line=line_no + 1, desc=desc, src=orig_line.strip(), status=suite,
                    caught_by=caught_by)
    finally:
        shutil.rmtree(scratch, ignore_errors=True)


def main():
    a = sys.argv[1:]
    jobs_n = int(a[a.index("-j") + 1]) if "-j" in a else 4
    files = a[a.index("--files") + 1].split(",") if "--files" in a else list(FILE_PROPS)
    limit = int(a[a.index("--limit") + 1]) if "--limit" in a else None
    out = a[a.index("--out") + 1] if "--out" in a else "/verif/.build/automutate.json"
    skip = int(a[a.index("--skip") + 1]) if "--skip" in a else 0
    jobs = []
    for f in files:
        text = open(os.path.join("/repo", f)).read()
        lines = text.split("\n")
        seen = set()
        for line_no, desc, new_text in sites(f, text):
            if new_text in seen or new_text == text:
                continue
            seen.add(new_text)
            jobs.append((len(jobs), f, line_no, desc, new_text, lines[line_no]))
    if limit:
        step = max(1, len(jobs) // limit)
        jobs = jobs[::step][:limit]
    jobs = jobs[skip:]
    print("%d mutants" % len(jobs), flush=True)
    results = []
    t0 = time.time()
    with ThreadPoolExecutor(jobs_n) as ex:
        for r in ex.map(run_mutant, jobs):
            results.append(r)
            if r["status"] != "nocompile":
                print("%-24s:%-4d %-18s %-13s %s   | %s" % (r["file"], r["line"], r["desc"], r["status"], r.get("caught_by") or "SURVIVED", r["src"][:70]), flush=True)
            json.dump(results, open(out, "w"), indent=0)
    built = [r for r in results if r["status"] != "nocompile"]
    surv = [r for r in built if not r.get("caught_by")]
    print("\n%d mutants, %d compile, %d killed by the existing suite, %d caught by the checks, %d survive (%.0f s)" % (
        len(results), len(built), sum(r["status"] == "suite-kills" for r in built), len(built) - len(surv), len(surv), time.time() - t0))
    print("survivors that the existing suite also misses:")
    for r in surv:
        if r["status"] == "suite-passes":
            print("  %s:%d %s | %s" % (r["file"], r["line"], r["desc"], r["src"][:90]))
    print("survivors that only the existing suite kills:")
    for r in surv:
        if r["status"] == "suite-kills":
            print("  %s:%d %s | %s" % (r["file"], r["line"], r["desc"], r["src"][:90]))


if __name__ == "__main__":
    sys.exit(main())
