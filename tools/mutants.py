#!/usr/bin/env python3
"""Sensitivity harness: applies hand-written breakages of pion/stun one at a time to /repo's working tree,
checks that the repository's own tests still pass (otherwise the mutant is not interesting), runs the
property's quick check and expects exit 1 + VIOLATION, then restores the tree (git checkout).

  tools/mutants.py [-k substring] [--tier quick|thorough] [--skip-tests]
"""
import subprocess, sys, os, json, time

ENV = dict(os.environ, GOFLAGS="-mod=mod", GOPROXY="off", GOSUMDB="off", GOTOOLCHAIN="local")

# (name, property, file, old, new)
M = [
 # C01
 ("c01-attr-len-unpadded", "C01", "message.go", "if len(b) < aBuffL { // checking size", "if len(b) < aL { // checking size"),
 ("c01-no-fullsize-guard", "C01", "message.go", "if len(buf) < fullSize {", "if false && len(buf) < fullSize {"),
 ("c01-value-padded-view", "C01", "message.go", "attr.Value = b[:aL]", "attr.Value = b[:aBuffL]"),
 ("c01-unmarshal-alias", "C01", "message.go", "// We can't retain data, copy is expected by interface contract.\n\tm.Raw = append(m.Raw[:0], data...)", "m.Raw = data"),
 ("c01-prealloc-declared", "C01", "message.go", "m.Attributes = m.Attributes[:0]\n\tvar (", "m.Attributes = make(Attributes, 0, size*64)\n\tvar ("),
 # C02
 ("c02-compat-removed", "C02", "attributes.go", "if val == 0x8020 {", "if false {"),
 ("c02-get-last", "C02", "attributes.go", "for _, candidate := range a {\n\t\tif candidate.Type == t {\n\t\t\treturn candidate, true\n\t\t}\n\t}", "var r RawAttribute\n\tok := false\n\tfor _, candidate := range a {\n\t\tif candidate.Type == t {\n\t\t\tr, ok = candidate, true\n\t\t}\n\t}\n\tif ok {\n\t\treturn r, true\n\t}"),
 ("c02-foreach-no-restore", "C02", "helpers.go", "if err := f(m); err != nil {\n\t\t\treturn err\n\t\t}", "if err := f(m); err != nil {\n\t\t\tattrs = m.Attributes\n\t\t\treturn err\n\t\t}"),
 ("c02-readvalue-shift", "C02", "message.go", "c1 := (v >> classC1Shift) & c1Bit\n\tclass := c0 + c1\n\tt.Class", "c1 := (v >> (classC1Shift+1)) & c1Bit\n\tclass := c0 + c1\n\tt.Class"),
 ("c02-last-attr-nopad", "C02", "message.go", "if len(b) < aBuffL { // checking size", "if len(b) < aBuffL && len(b) < aL { // checking size"),
 # C03
 ("c03-no-pad-zero", "C03", "message.go", "for i := range buf {\n\t\t\tbuf[i] = 0\n\t\t}", "for i := range buf {\n\t\t\t_ = i\n\t\t}"),
 ("c03-mi-length-not-restored", "C03", "integrity.go", "msg.Length = length                                    // changing m.Length back", "_ = length"),
 ("c03-encode-no-length-reset", "C03", "message.go", "m.Length = 0\n\tm.WriteHeader()\n\tm.WriteAttributes()", "m.WriteHeader()\n\tm.WriteAttributes()"),
 ("c03-encode-f19-revert", "C03", "message.go", "m.Length = 0\n\tm.WriteHeader()\n\tm.WriteAttributes()", "m.WriteHeader()\n\tm.Length = 0\n\tm.WriteAttributes()"),
 ("c03-settype-struct-only", "C03", "message.go", "func (m *Message) SetType(t MessageType) {\n\tm.Type = t\n\tm.WriteType()", "func (m *Message) SetType(t MessageType) {\n\tm.Type = t"),
 # C04
 ("c04-sizereduced-nopad", "C04", "integrity.go", "sizeReduced += nearestPaddedValueLength(int(a.Length))", "sizeReduced += int(a.Length)"),
 ("c04-hmac-prefix-compare", "C04", "checks.go", "if hmac.Equal(got, expected) {", "if len(got) >= 19 && len(expected) >= 19 && hmac.Equal(got[:19], expected[:19]) {"),
 ("c04-longterm-sep", "C04", "integrity.go", 'const credentialsSep = ":"', 'const credentialsSep = ";"'),
 ("c04-check-no-restore", "C04", "integrity.go", "msg.Length = length\n\tmsg.WriteLength() // writing length back", "msg.Length = length"),
 # C05
 ("c05-span-short", "C05", "fingerprint.go", "attrStart := len(m.Raw) - (fingerprintSize + attributeHeaderSize)", "attrStart := len(m.Raw) - (fingerprintSize + attributeHeaderSize) - 4"),
 ("c05-xor-const", "C05", "fingerprint.go", "fingerprintXORValue uint32 = 0x5354554e", "fingerprintXORValue uint32 = 0x5354554f"),
 ("c05-no-checksize", "C05", "fingerprint.go", "if err = CheckSize(AttrFingerprint, len(b), fingerprintSize); err != nil {\n\t\treturn err\n\t}", "if len(b) < fingerprintSize {\n\t\treturn ErrAttributeSizeInvalid\n\t}"),
 # C06
 ("c06-xor-port-low-cookie", "C06", "xoraddr.go", "bin.PutUint16(value[2:4], uint16(a.Port^magicCookie>>16))", "bin.PutUint16(value[2:4], uint16(a.Port^(magicCookie&0xffff)))"),
 ("c06-family-swapped", "C06", "xoraddr.go", "familyIPv4 uint16 = 0x01\n\tfamilyIPv6 uint16 = 0x02", "familyIPv4 uint16 = 0x02\n\tfamilyIPv6 uint16 = 0x01"),
 ("c06-errcode-class-number", "C06", "errorcode.go", "errorCodeClassByte   = 2\n\terrorCodeNumberByte  = 3", "errorCodeClassByte   = 3\n\terrorCodeNumberByte  = 2"),
 ("c06-uattrs-4byte", "C06", "uattrs.go", "const attrTypeSize = 2", "const attrTypeSize = 4"),
 # C07
 ("c07-xor-len-check-late", "C07", "xoraddr.go", "if len(value) <= 4 {\n\t\treturn io.ErrUnexpectedEOF\n\t}\n\tfamily := bin.Uint16(value[0:2])", "family := bin.Uint16(value[0:2])\n\tif len(value) > 1000 {\n\t\treturn io.ErrUnexpectedEOF\n\t}"),
 ("c07-mapped-len-lt4", "C07", "addr.go", "if len(value) <= 4 {", "if len(value) < 2 {"),
 ("c07-errcode-len", "C07", "errorcode.go", "if len(value) < errorCodeReasonStart {", "if len(value) < errorCodeClassByte {"),
 ("c07-fp-no-checksize", "C07", "fingerprint.go", "if err = CheckSize(AttrFingerprint, len(b), fingerprintSize); err != nil {\n\t\treturn err\n\t}", ""),
 # C08
 ("c08-decode-keeps-attrs", "C08", "message.go", "m.Attributes = m.Attributes[:0]\n\tvar (", "var ("),
 ("c08-reset-keeps-length", "C08", "message.go", "m.Raw = m.Raw[:0]\n\tm.Length = 0\n\tm.Attributes = m.Attributes[:0]", "m.Raw = m.Raw[:0]\n\tm.Attributes = m.Attributes[:0]"),
 ("c08-cloneto-alias", "C08", "message.go", "b.Raw = append(b.Raw[:0], m.Raw...)\n\n\treturn b.Decode()", "b.Raw = m.Raw\n\n\treturn b.Decode()"),
 # C09
 ("c09-overflow-lt", "C09", "checks.go", "if got <= maxVal {", "if got < maxVal {"),
 ("c09-username-limit", "C09", "textattrs.go", "const maxUsernameB = 513", "const maxUsernameB = 514"),
 ("c09-add-before-check", "C09", "textattrs.go", "\tif maxLen >= 0 {\n\t\tif err := CheckOverflow(t, len(v), maxLen); err != nil {\n\t\t\treturn err\n\t\t}\n\t}\n\tm.Add(t, v)", "\tm.Add(t, v)\n\tif maxLen >= 0 {\n\t\tif err := CheckOverflow(t, len(v), maxLen); err != nil {\n\t\t\treturn err\n\t\t}\n\t}"),
 ("c09-build-ignores-error", "C09", "helpers.go", "if err := s.AddTo(m); err != nil {\n\t\t\treturn err\n\t\t}\n\t}\n\n\treturn nil\n}\n\n// Check applies", "_ = s.AddTo(m)\n\t}\n\n\treturn nil\n}\n\n// Check applies"),
 # C13
 ("c13-collect-not-after", "C13", "agent.go", "if t.deadline.Before(gcTime) {", "if !t.deadline.After(gcTime) {"),
 ("c13-process-no-delete", "C13", "agent.go", "h := a.handler\n\tdelete(a.transactions, m.TransactionID)", "h := a.handler"),
 ("c13-close-not-closed", "C13", "agent.go", "a.transactions = nil\n\ta.closed = true", "a.transactions = map[transactionID]agentTransaction{}"),
 # C14
 ("c14-stop-two-sections", "C14", "agent.go", "t, exists := a.transactions[id]\n\tdelete(a.transactions, id)\n\th := a.handler\n\ta.mux.Unlock()", "t, exists := a.transactions[id]\n\th := a.handler\n\ta.mux.Unlock()\n\ta.mux.Lock()\n\tdelete(a.transactions, id)\n\ta.mux.Unlock()"),
 ("c14-handler-read-unlocked", "C14", "agent.go", "t, exists := a.transactions[id]\n\tdelete(a.transactions, id)\n\th := a.handler\n\ta.mux.Unlock()", "t, exists := a.transactions[id]\n\tdelete(a.transactions, id)\n\ta.mux.Unlock()\n\th := a.handler"),
 ("c14-process-handler-under-lock", "C14", "agent.go", "delete(a.transactions, m.TransactionID)\n\ta.mux.Unlock()\n\th(event)", "delete(a.transactions, m.TransactionID)\n\th(event)\n\ta.mux.Unlock()"),
 # C19
 ("c19-class-shift", "C19", "message.go", "classC1Shift = 7", "classC1Shift = 6"),
 ("c19-methodD-bits", "C19", "message.go", "methodDBits = 0xf80", "methodDBits = 0x780"),
 # C20
 ("c20-grow-realloc", "C20", "message.go", "if cap(m.Raw) >= n {\n\t\tm.Raw = m.Raw[:n]\n\n\t\treturn\n\t}", ""),
 ("c20-decode-attrs-nil", "C20", "message.go", "m.Attributes = m.Attributes[:0]\n\tvar (", "m.Attributes = nil\n\tvar ("),
 ("c20-hmac-sum-nil", "C20", "internal/hmac/pool.go", "key = h.outer.Sum(h.opad[:0])", "key = h.outer.Sum(nil)"),
 # C10
 ("c10-no-once-guard", "C10", "client.go", "if atomic.AddInt32(&t.calls, 1) == 1 {", "if atomic.AddInt32(&t.calls, 1) >= 1 {"),
 ("c10-f5-revert", "C10", "client.go", "\tif closed {\n\t\t// The client is closing", "\tif closed {\n\t\treturn\n\t}\n\tif closed {\n\t\t// The client is closing"),
 ("c10-maxattempts-lt", "C10", "client.go", "atomic.LoadInt32(&c.maxAttempts) > transaction.attempt", "atomic.LoadInt32(&c.maxAttempts) >= transaction.attempt"),
 ("c10-f10-revert", "C10", "client.go", "\t\tif !c.delete(transaction, id, gen) {\n\t\t\t// A response (or Close) completed", "\t\tif c.delete(transaction, id, gen); false {\n\t\t\t// A response (or Close) completed"),
 ("c10-f18-revert", "C10", "client.go", "\tfound = found && cur == t && cur.gen == gen\n", "\t_, _ = cur, gen\n"),
 ("c10-f18-no-generation", "C10", "client.go", "\tfound = found && cur == t && cur.gen == gen\n", "\tfound = found && cur == t\n\t_ = gen\n"),
 ("c10-f16-revert-window", "C12", "client.go", "\t} else if found {\n\t\tdelete(c.t, transaction.id)\n\t}\n\tc.mux.Unlock()", "\t}\n\tif found {\n\t\tdelete(c.t, transaction.id)\n\t}\n\tc.mux.Unlock()\n\tif retransmit {\n\t\t_ = c.clock.Now()\n\t\tc.mux.Lock()\n\t\tc.t[id] = transaction\n\t\tc.mux.Unlock()\n\t}"),
 ("c10-f15-revert", "C10", "client.go", "\t\t\tif !c.delete(t, msg.TransactionID, gen) {\n\t\t\t\t// Completed concurrently after it was registered", "\t\t\tif true {\n\t\t\t\treturn err\n\t\t\t}\n\t\t\tif !c.delete(t, msg.TransactionID, gen) {\n\t\t\t\t// Completed concurrently after it was registered"),
 ("c10-start-err-keeps-tx", "C10", "client.go", "\tif err != nil && handler != nil {\n\t\tif !c.delete(t, msg.TransactionID, gen) {", "\tif err != nil && handler != nil {\n\t\tif false {"),
 # C11
 ("c11-f6-revert", "C11", "client.go", "buff.buf = append(buff.buf[:0], transaction.raw...)", "buff.buf = buff.buf[:copy(buff.buf[:cap(buff.buf)], transaction.raw)]"),
 ("c11-raw-alias", "C11", "client.go", "t.raw = append(t.raw[:0], msg.Raw...)", "t.raw = msg.Raw"),
 ("c11-rto-read-late", "C11", "client.go", "timeOut = transaction.nextTimeout(now)", "timeOut = now.Add(time.Duration(transaction.attempt+1) * time.Duration(atomic.LoadInt64(&c.rto)))"),
 ("c11-collect-not-after", "C11", "agent.go", "if t.deadline.Before(gcTime) {", "if !t.deadline.After(gcTime) {"),
 # C12
 ("c12-fallback-for-matched", "C12", "client.go", "\tif !found {\n\t\tif c.handler != nil && !errors.Is(event.Error, ErrTransactionStopped) {", "\tif c.handler != nil && found && event.Error == nil {\n\t\tc.handler(event)\n\t}\n\tif !found {\n\t\tif c.handler != nil && !errors.Is(event.Error, ErrTransactionStopped) {"),
 ("c12-calls-not-reset", "C12", "client.go", "\t\tt.calls = 0\n", "\n"),
 ("c12-process-stale-id", "C12", "agent.go", "event := Event{\n\t\tTransactionID: m.TransactionID,\n\t\tMessage:       m,\n\t}\n\ta.mux.Lock()", "event := Event{\n\t\tMessage: m,\n\t}\n\tcopy(event.TransactionID[:11], m.TransactionID[:11])\n\ta.mux.Lock()"),
 # C15
 ("c15-second-close-nil", "C15", "client.go", "\tif c.closed {\n\t\tc.mux.Unlock()\n\n\t\treturn ErrClientClosed\n\t}\n\tc.closed = true", "\tif c.closed {\n\t\tc.mux.Unlock()\n\n\t\treturn nil\n\t}\n\tc.closed = true"),
 ("c15-no-wg-wait", "C15", "client.go", "\tagentErr := c.a.Close()\n\tc.wg.Wait()", "\tagentErr := c.a.Close()"),
 ("c15-closeconn-ignored", "C15", "client.go", "\tif c.closeConn {\n\t\tconnErr = c.c.Close()", "\tif c.closeConn || c.handler != nil {\n\t\tconnErr = c.c.Close()"),
 ("c15-conn-close-after-collector", "C15", "client.go", "\tvar connErr error\n\tif c.closeConn {\n\t\tconnErr = c.c.Close()\n\t}\n\tif closeErr := c.collector.Close(); closeErr != nil {\n\t\treturn closeErr\n\t}\n", "\tvar connErr error\n\tif closeErr := c.collector.Close(); closeErr != nil {\n\t\treturn closeErr\n\t}\n\tif c.closeConn {\n\t\tconnErr = c.c.Close()\n\t}\n"),
 ("c15-closeerr-drops-conn", "C15", "client.go", "\treturn CloseErr{\n\t\tAgentErr:      agentErr,\n\t\tConnectionErr: connErr,\n\t}", "\treturn CloseErr{\n\t\tAgentErr:      agentErr,\n\t\tConnectionErr: agentErr,\n\t}"),
 # C17
 ("c17-default-port-swapped", "C17", "uri.go", "defaultPort := DefaultPort\n\t\tif uri.Scheme == SchemeTypeSTUNS || uri.Scheme == SchemeTypeTURNS {", "defaultPort := DefaultPort\n\t\tif uri.Scheme == SchemeTypeSTUNS || uri.Scheme == SchemeTypeTURN {"),
 ("c17-string-no-brackets", "C17", "uri.go", "rawURL := u.Scheme.String() + \":\" + net.JoinHostPort(u.Host, strconv.Itoa(u.Port))", "rawURL := u.Scheme.String() + \":\" + u.Host + \":\" + strconv.Itoa(u.Port)"),
 ("c17-qargs-gt2", "C17", "uri.go", "if err != nil || len(qArgs) > 1 {", "if err != nil || len(qArgs) > 2 {"),
 ("c17-turns-udp-plain", "C17", "client.go", "\tcase uri.Scheme == SchemeTypeTURN:", "\tcase uri.Scheme == SchemeTypeTURN || (uri.Scheme == SchemeTypeTURNS && uri.Proto == ProtoTypeUDP):"),
 ("c17-port-upper-bound", "C17", "uri.go", "uri.Port < 0 || uri.Port > 65535", "uri.Port < 0 || uri.Port > 65536"),
 ("c17-sni-missing", "C17", "client.go", "\t\ttlsCfg.ServerName = uri.Host\n", "\n"),
 # C18
 ("c18-marshaled-not-cleared", "C18", "internal/hmac/pool.go", "\th.marshaled = false\n", "\n"),
 ("c18-pads-not-rezeroed", "C18", "internal/hmac/pool.go", "h.ipad = append(h.ipad[:0], make([]byte, blocksize)...)\n\th.opad = append(h.opad[:0], make([]byte, blocksize)...)", "h.ipad = append(h.ipad[:0], h.ipad[:blocksize]...)\n\th.opad = append(h.opad[:0], h.opad[:blocksize]...)"),
 ("c18-no-inner-reset", "C18", "internal/hmac/pool.go", "\th.outer.Reset()\n\th.inner.Reset()\n\tblocksize", "\th.outer.Reset()\n\tblocksize"),
 # C20 (replacement for the equivalent grow mutant)
 ("c20-xor-getter-allocs-ip", "C20", "xoraddr.go", "\ta.IP = a.IP[:ipLen]\n\tfor i := range a.IP {\n\t\ta.IP[i] = 0\n\t}\n\tif err := CheckOverflow", "\ta.IP = make(net.IP, ipLen)\n\tif err := CheckOverflow"),
 # debug build tag only (checks_debug.go): visible only to the -tags debug phases
 ("dbg-overflow-lt", "C09", "checks_debug.go", "if got <= max {", "if got < max {"),
 ("dbg-checksize-ge", "C05", "checks_debug.go", "func CheckSize(a AttrType, got, expected int) error {\n\tif got == expected {", "func CheckSize(a AttrType, got, expected int) error {\n\tif got >= expected {"),
 ("dbg-hmac-prefix", "C04", "checks_debug.go", "if hmac.Equal(got, expected) {", "if len(got) > 0 && len(got) <= len(expected) && hmac.Equal(got, expected[:len(got)]) {"),
 ("dbg-fingerprint-lowbyte", "C05", "checks_debug.go", "func checkFingerprint(got, expected uint32) error {\n\tif got == expected {", "func checkFingerprint(got, expected uint32) error {\n\tif uint8(got) == uint8(expected) {"),
 ("c15-rto-nonatomic-read", "C15", "client.go", "t.rto = time.Duration(atomic.LoadInt64(&c.rto))", "t.rto = time.Duration(c.rto)"),
 ("c15-closed-unlocked-read", "C15", "client.go", "\tc.mux.RLock()\n\tclosed := c.closed\n\tc.mux.RUnlock()\n\tif closed {\n\t\treturn ErrClientClosed\n\t}\n\tvar (", "\tclosed := c.closed\n\tif closed {\n\t\treturn ErrClientClosed\n\t}\n\tvar ("),
 ("c05-f14-revert", "C05", "fingerprint.go", "val := FingerprintValue(m.Raw[:end])", "val := FingerprintValue(m.Raw)"),
 ("c04-f14-revert", "C04", "integrity.go", "v := newHMAC(i, msg.Raw[:end], msg.Raw[len(msg.Raw):])", "v := newHMAC(i, msg.Raw, msg.Raw[len(msg.Raw):])"),
 ("c06-f20-revert", "C06", "errorcode.go", "uint16(value[errorCodeClassByte] & 0x07)", "uint16(value[errorCodeClassByte])"),
 ("c09-f21-revert", "C09", "textattrs.go", "\tif maxLen >= 0 {\n\t\tif err := CheckOverflow(t, len(v), maxLen); err != nil {\n\t\t\treturn err\n\t\t}\n\t}", "\tif err := CheckOverflow(t, len(v), maxLen); err != nil {\n\t\treturn err\n\t}"),
 ("c17-f22-revert", "C17", "client.go", "nw.ResolveUDPAddr(\"udp\", addr)", "net.ResolveUDPAddr(\"udp\", addr)"),
 ("c20-f17-revert", "C20", "integrity.go", "if err == nil || err == ErrIntegrityMismatch {", "if err == nil {"),
]

def _clean_logs(out):
    """remove the per-run work directory a failing check leaves behind (sensitivity runs only)"""
    import re as _re, shutil as _sh
    for m in _re.finditer(r"^logs: (/verif/\.build/run-[^\s]+)$", out or "", _re.M):
        _sh.rmtree(m.group(1), ignore_errors=True)


def sh(cmd, cwd=None, timeout=3600):
    r = subprocess.run(cmd, cwd=cwd, env=ENV, stdout=subprocess.PIPE, stderr=subprocess.STDOUT, text=True, errors="replace", timeout=timeout)
    return r.returncode, r.stdout

def run_one(m, tier, skip_tests):
    name, prop, f, old, new = m
    scratch = "/tmp/verif-mut-%s-%d" % (name, os.getpid())
    subprocess.run(["rm", "-rf", scratch]); os.makedirs(scratch)
    repo = os.path.join(scratch, "repo")
    subprocess.run(["rsync", "-a", "--exclude", ".git", "/repo/", repo + "/"], check=True)
    try:
        path = os.path.join(repo, f)
        src = open(path).read()
        if old not in src:
            return (name, prop, "STALE (pattern not found)", "")
        open(path, "w").write(src.replace(old, new, 1))
        rc, out = sh(["go", "build", "./..."], cwd=repo)
        if rc != 0:
            return (name, prop, "does not compile", out[-300:])
        tests = "?"
        if not skip_tests:
            rc, out = sh(["go", "test", "-count=1", "-vet=off", "./..."], cwd=repo)
            tests = "tests-pass" if rc == 0 else "tests-FAIL"
        t0 = time.time()
        env = dict(ENV, VERIF_REPO=repo)
        r = subprocess.run(["/verif/check", prop, tier], cwd="/verif", env=env, stdout=subprocess.PIPE, stderr=subprocess.STDOUT, text=True, errors="replace")
        _clean_logs(r.stdout)
        rc, out = r.returncode, r.stdout
        caught = rc == 1 and "VIOLATION property=%s" % prop in out
        first = [l for l in out.splitlines() if l.startswith("VIOLATION") or l.startswith("  ")][:2]
        status = ("CAUGHT" if caught else "MISSED(rc=%d)" % rc) + " " + tests + " %.0fs" % (time.time() - t0)
        detail = " | ".join(first)[:300]
        if not caught and rc != 0:
            detail += "\n" + out[-1200:]
        return (name, prop, status, detail)
    finally:
        subprocess.run(["rm", "-rf", scratch])


def main():
    from concurrent.futures import ThreadPoolExecutor
    args = sys.argv[1:]
    filt, tier, skip_tests, jobs = None, "quick", False, 4
    while args:
        a = args.pop(0)
        if a == "-k": filt = args.pop(0)
        elif a == "--tier": tier = args.pop(0)
        elif a == "--skip-tests": skip_tests = True
        elif a == "-j": jobs = int(args.pop(0))
    todo = [m for m in M if not filt or filt in m[0] or filt == m[1]]
    results = []
    with ThreadPoolExecutor(jobs) as ex:
        for res in ex.map(lambda m: run_one(m, tier, skip_tests), todo):
            results.append(res)
            print("%-34s %-4s %s  %s" % res, flush=True)
    print("\n== summary ==")
    for r in results: print("%-34s %-4s %s" % r[:3])
    missed = [r for r in results if not r[2].startswith("CAUGHT")]
    print("%d mutants, %d not caught" % (len(results), len(missed)))
    return 0

if __name__ == "__main__":
    sys.exit(main())
