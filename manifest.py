#!/usr/bin/env python3
"""Regenerates MANIFEST.json from the table below (keeps it valid and in step with ./check)."""
import json

BASELINE_OFF = ("cd /repo && GOFLAGS=-mod=mod GOPROXY=off GOSUMDB=off GOTOOLCHAIN=local "
                "go test -json -vet=off -count=1 -timeout 25m ./...")

# id -> (technique, level text, level note, design ref)
CLAIMED = {
 "C19": ("exhaustive generated-input differential against a bit-by-bit RFC 5389 figure-3 reference (complete domain)",
         "Every (method,class) pair and every 16-bit wire value is generated and compared with an independent bit-by-bit reference; "
         "the domain is finite and enumerated completely, so for this property exploration is exhaustive.",
         "Trusts the harness's transcription of RFC 5389 figure 3 (ref.TypeValue/TypeRead, self-checked on known type values).",
         "DESIGN.md section 4, C19"),
}

TITLES = {}
for line in open("/verif/properties.jsonl"):
    p = json.loads(line)
    TITLES[p["id"]] = p["title"]

checks = []
for pid in sorted(CLAIMED):
    tech, text, note, ref = CLAIMED[pid]
    checks.append({
        "property_id": pid,
        "quick_cmd": "./check %s quick" % pid,
        "thorough_cmd": "./check %s thorough" % pid,
        "evidence_file": "/verif/evidence/%s.json" % pid,
        "replay_cmd_template": "./check %s --replay {path}" % pid,
        "engine": "harness",
        "level_claimed": {"category": "exploration", "text": text, "design_ref": ref},
        "level_note": note,
        "technique": tech,
    })

NA_REASON = {}
not_applicable = [{"property_id": pid, "reason": NA_REASON.get(pid, "not claimed yet: its generated check is still under construction in this session (design in DESIGN.md section 4)")}
                  for pid in sorted(TITLES) if pid not in CLAIMED]

manifest = {
    "version": 1,
    "setup_cmd": "./check setup",
    "hooks": {
        "guard": "verif",
        "enable": "no source hooks are needed: every control point is injected through public options (WithAgent, WithClock, WithCollector, the Connection argument, DialConfig.Net); checks build /repo through a go.mod replace directive, with and without the repository's own `debug` tag",
        "baseline_off_cmd": BASELINE_OFF,
        "source_commits": [],
        "add_only": True,
    },
    "engines": [{
        "name": "harness",
        "path": "/verif/harness",
        "serves_properties": sorted(CLAIMED),
        "kind_free_text": "Go module (replace github.com/pion/stun/v3 => /repo) with rapid v1.3.0 properties, small-scope exhaustive generators, native fuzz targets (thorough tier), independent reference oracles in harness/ref; driven by the python3 script ./check",
    }],
    "checks": checks,
    "notes": "All checks are property-based tests / fuzzing against explicit oracles (see DESIGN.md). Exit 2 from ./check means infrastructure/inconclusive, never a violation. Known findings: /verif/known_findings.json.",
    "not_applicable": not_applicable,
}
json.dump(manifest, open("/verif/MANIFEST.json", "w"), indent=1)
print("MANIFEST.json: %d claimed, %d not claimed" % (len(checks), len(not_applicable)))
