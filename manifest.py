#!/usr/bin/env python3
"""Regenerates MANIFEST.json from the table below (keeps it valid and in step with ./check)."""
import json

BASELINE_OFF = ("cd /repo && GOFLAGS=-mod=mod GOPROXY=off GOSUMDB=off GOTOOLCHAIN=local "
                "go test -json -vet=off -count=1 -timeout 25m ./...")

# id -> (technique, level text, level note, design ref)
E = "exploration"
CLAIMED = {
 "C01": ("property-based testing + exhaustive small-scope generation: all 7 decoding entry points on random/structured/mutated bytes and every length shape up to a body bound; oracles no-panic, watchdog, allocation bound, view geometry, entry-point agreement (release and debug builds); native fuzzing in the thorough tier",
         "Generated-input search with explicit safety oracles; the length-structure space up to a stated body bound is enumerated completely, everything beyond it is sampled.",
         "Inputs above 65555 bytes are not generated; allocation bound 4096+96*len is the harness's reading of 'small multiple'; absence is not established beyond the enumerated bound.",
         "DESIGN.md section 4, C01"),
 "C02": ("differential testing of stun.Decode against an independently written RFC 5389 parser (harness/ref) on generated inputs and the exhaustive length-shape space; list-model oracle for Get/Contains/ForEach",
         "Accept/reject verdict and decoded content are compared with a second implementation written from the RFC for every length structure up to a body bound (exhaustive) and for random/mutated inputs (sampled).",
         "Trusts harness/ref.Parse as a faithful RFC 5389 framing parser (validated on the RFC 5769 test vectors).",
         "DESIGN.md section 4, C02"),
 "C03": ("model-based (stateful) property testing with rapid: random traces of building operations, invariant checked after every step against a list model, the reference parser and the canonical reference encoder; native coverage-guided fuzzing of the same generators and oracle (rapid.MakeFuzz) in the thorough tier",
         "Histories of building operations are generated and shrunk as one value; after every step wire == struct == model and decode/encode identities hold.",
         "Sampled histories (bounded length 1..40); typed-setter value bytes are taken from the wire here and judged by C06; type 0x8020 is not passed to Add (decode-side alias).",
         "DESIGN.md section 4, C03"),
 "C04": ("property-based differential testing of MessageIntegrity.Check/AddTo against an RFC 2104 HMAC-SHA1 written by definition; exhaustive single-bit tamper sweep per signed message (release and debug builds); native coverage-guided fuzzing of the verdict iff (bytes x key, reference MAC written in by a knob) in the thorough tier",
         "The iff of RFC 5389 15.4 is checked on generated messages with near-miss MACs and arbitrary trailing attributes; every bit position of each signed message is flipped and judged by the reference verdict.",
         "Trusts harness/ref.HMACSHA1 (cross-checked against crypto/hmac); collision bounds of HMAC-SHA1 are inherited.",
         "DESIGN.md section 4, C04"),
 "C05": ("property-based differential testing of Fingerprint.Check/AddTo against a bitwise CRC-32; exhaustive single-bit flips and random <=32-bit bursts per fingerprinted message (release and debug builds); native coverage-guided fuzzing of the verdict iff in the thorough tier",
         "The iff of RFC 5389 15.5 is checked on generated messages; every bit of each fingerprinted message and random bursts (in CRC bit order) must be detected unless the corruption creates/removes FINGERPRINT attributes.",
         "Trusts harness/ref.CRC32 (bitwise, cross-checked against hash/crc32). Bursts are windows of <=32 consecutive bits in the CRC's own bit order (where the guarantee is mathematical).",
         "DESIGN.md section 4, C05"),
 "C06": ("property-based round-trip plus two-way differential testing against independent RFC 5389 section 15 encoders/decoders; exhaustive sweeps of error codes, list lengths, limit-adjacent text lengths and (thorough) all ports",
         "Each typed value is checked in three directions: library round-trip, library bytes == RFC encoder (and readable by an RFC decoder), RFC-encoded bytes readable by the library.",
         "Attribute limits are the library's documented constants (D5); reference codecs in harness/ref validated on RFC 5769 vectors.",
         "DESIGN.md section 4, C06"),
 "C07": ("metamorphic (twin) testing: each getter/checker runs on two generated messages that hold the same value but differ in padding, neighbours, capacity and poison; exhaustive grid over getter x value length 0..40 x position x capacity, plus random twins (release and debug builds)",
         "Locality and purity are decided by a metamorphic relation (equal outcome on twins) plus before/after snapshots and no-panic with zero spare capacity; value lengths 0..40 are enumerated completely.",
         "Spare capacity may be used as scratch by the integrity check (D7); only visible bytes are compared.",
         "DESIGN.md section 4, C07"),
 "C08": ("stateful property testing with a fresh-twin differential: random histories of decode/build uses of one Message with poisoned spare capacity and caller inputs overwritten after every call; native coverage-guided fuzzing of three-use decode histories with the same oracle in the thorough tier",
         "Every use of a reused Message is compared with the same use on a fresh Message; copy semantics are checked by scribbling over all caller-side inputs.",
         "Message.Decode() in place is excluded (no copy by design); sampled histories of 2..8 uses.",
         "DESIGN.md section 4, C08"),
 "C09": ("property-based testing of every setter on both sides of each limit with by-construction expected error class, before/after snapshots and spy-wrapped Build lists; exhaustive sweeps of limit-adjacent lengths, IP lengths 0..20, codes 0..999 (release and debug builds)",
         "Expected outcome is known by construction from the generated value; atomicity is a snapshot comparison; Build's stop-at-first-error is checked with recording setters.",
         "Limits are the library's documented constants (D5); codes 300..699 without a default reason may be accepted or refused.",
         "DESIGN.md section 4, C09"),
 "C10": ("model-based testing of the real Client in a controlled world (scripted connection, virtual clock, manual collector, delegating agent - public options only): exhaustive small-depth histories, rapid histories checked step by step against an abstract transaction-table model, named targeted interleavings through the control points (each followed by a pool-integrity probe), a pairwise interleaving explorer (two client operations parked at every call-out of the client, depth-first search over the merges of their gate sequences, late launch and atomic insertion, non-waiting collector, id reuse from inside / right after a handler, an aftermath that reuses the id and runs the clock past every deadline), and randomized concurrent stress under the race detector",
         "Histories are generated (exhaustively to a depth bound, randomly beyond) and every step's return value, handler invocations and written datagrams are compared with a reference model; schedules are sampled, with a set of named interleavings forced deterministically.",
         "Sequential histories are decided by the model; concurrent schedules are sampled by the Go scheduler between the harness's control points (absence of schedule-dependent violations is not established). Connection is causal (D4).",
         "DESIGN.md section 4, C10; appendix B, C"),
 "C11": ("model-based testing on the same engine with generators focused on retransmission: sizes 20..65532, RTOs 1 ns..10 s, collects just before/at/after every deadline, SetRTO and caller-side buffer reuse; oracle over the connection's write log with virtual time stamps; plus two gated scenarios: a retransmission write parked inside the connection while the transaction ends and pooled objects (or the id itself) are reused, and the built-in ticker collector driven by an injected clock",
         "Write log (bytes and virtual time) is compared with the model's schedule for generated histories, including complete schedules up to the final timeout for boundary sizes.",
         "Attempt limits other than 0 and 7 are not configurable from outside the package.",
         "DESIGN.md section 4, C11"),
 "C12": ("model-based testing on the same engine with worlds of 1..500 concurrently in-flight transactions, near-colliding ids, random response permutations with duplicates/unknown ids/garbage, several rounds per client to recycle pooled objects, transient Read errors; plus the interleaving explorer with a delivery assertion (a response that arrives while its transaction is in flight reaches that transaction's handler, whatever the other goroutine is doing)",
         "Every handler invocation must carry its own id and exactly the delivered datagram; unmatched datagrams go only to the fallback handler; compared against the model after every delivered datagram.",
         "Two live transactions never share an id (D4); concurrency inside the client is covered by the C10/C15 stress, routing here is checked on harness-ordered deliveries.",
         "DESIGN.md section 4, C12"),
 "C13": ("exhaustive small-scope + model-based testing: all call sequences to a depth bound over 3 ids x 4 instants, every reachable abstract state x every call, and long rapid sequences, compared call by call with an abstract transaction table; native coverage-guided fuzzing of byte-coded call sequences against the same model in the thorough tier",
         "Return values and event multisets of every call equal the reference model's; the bounded sequence space and the abstract state space are enumerated completely.",
         "Handlers do not re-enter the agent in these sequential histories (C14 does).",
         "DESIGN.md section 4, C13; appendix A"),
 "C14": ("randomized concurrent histories under the race detector with a watchdog, checked for linearizability against the sequential model with porcupine, plus a direct exactly-one-terminal-event invariant",
         "Generated multi-goroutine call plans (with re-entrant handlers) are executed; recorded histories are checked with a linearizability checker against the reference model.",
         "Interleavings are chosen by the Go scheduler (sampled); porcupine timeouts are counted as inconclusive.",
         "DESIGN.md section 4, C14"),
 "C15": ("property-based testing of Close: deterministic histories over option combinations and injected close errors on the C10 engine, the built-in ticker collector (also parked inside its tick, with an hour-long tick rate, with non-positive RTOs), connections whose Write blocks until they are closed, Close with thousands of transactions in flight, the interleaving explorer for every pair involving Close, and randomized concurrent Start/Do/Indicate/SetRTO/Close under the race detector with goroutine-stack leak inspection",
         "Return values, close counts, handler stamps, goroutine stacks and race reports are checked on generated histories and sampled concurrent schedules.",
         "Collector Close succeeds and Read eventually returns under WithNoConnClose (the property's preconditions); schedules are sampled.",
         "DESIGN.md section 4, C15"),
 "C16": ("exhaustive small-alphabet enumeration plus grammar/mutation-based generation of URI strings, each parsed by a supervised child process with a 1 MiB stack cap; worker death, recovered panic or silence is the oracle",
         "All strings over a 20-symbol alphabet up to a stated length after each scheme prefix are enumerated; longer/odd inputs (non-ASCII, control bytes, up to 1 MiB) are sampled. A fatal stack overflow cannot be recovered in-process, hence the isolated worker.",
         "1 MiB of stack and 30 s per input are taken as 'bounded by the input length' (three/six orders of magnitude above the legitimate cost).",
         "DESIGN.md section 4, C16"),
 "C17": ("property-based testing with expectation by construction: URIs are built from generated components so the expected fields are known without a second parser; full component product enumerated; generic invariant + format/parse round-trip on mutated strings; DialURI run against an injected in-memory transport.Net and the bytes on the wire inspected",
         "Parse results are compared with the reference expectation of the generated components; DialURI's requested (network,address), handshake record type, server name and absence of plaintext are observed on in-memory connections.",
         "Where the statement is silent (signed/empty port, bare '?', empty/repeated transport, upper-case scheme) either outcome is accepted. The DTLS path uses the system resolver (localhost/IP literals).",
         "DESIGN.md section 4, C17"),
 "C18": ("model-based (stateful) property testing of the pooled HMAC API against a shadow crypto/hmac object and an RFC 2104 implementation by definition; concurrent variant under the race detector",
         "Operation sequences over up to three simultaneously held pooled handles are generated and shrunk as one value; every Sum is compared with two independent oracles.",
         "sync.Pool recycling is likely but not guaranteed per case; recycling across the 64-byte key boundary is counted from the plan.",
         "DESIGN.md section 4, C18"),
 "C19": ("exhaustive generated-input differential against a bit-by-bit RFC 5389 figure-3 reference (complete domain)",
         "Every (method,class) pair and every 16-bit wire value is generated and compared with an independent bit-by-bit reference; the domain is finite and enumerated completely.",
         "Trusts the harness's transcription of RFC 5389 figure 3 (ref.TypeValue/TypeRead, self-checked on known type values).",
         "DESIGN.md section 4, C19"),
 "C20": ("property-based testing with testing.AllocsPerRun == 0 as oracle over generated well-formed messages, warm buffers, dedicated non-race process",
         "Allocation counts are measured per operation on generated messages of every supported attribute type and size class.",
         "'Warm' means previously used for a strictly larger message (D6); UnknownAttributes with > 20 types is a documented allocation and not generated; operations must succeed.",
         "DESIGN.md section 4, C20"),
}

TITLES = {}
for line in open("/verif/properties.jsonl"):
    p = json.loads(line)
    TITLES[p["id"]] = p["title"]

checks = []
for pid in sorted(CLAIMED):
    tech, text, note, ref = CLAIMED[pid]
    checks.append({
        "property_id": pid,
        "quick_cmd": "./check %s quick" % pid,
        "thorough_cmd": "./check %s thorough" % pid,
        "evidence_file": "/verif/evidence/%s.json" % pid,
        "replay_cmd_template": "./check %s --replay {path}" % pid,
        "engine": "harness",
        "level_claimed": {"category": "exploration", "text": text, "design_ref": ref},
        "level_note": note,
        "technique": tech,
    })

NA_REASON = {}
not_applicable = [{"property_id": pid, "reason": NA_REASON.get(pid, "not claimed yet: its generated check is still under construction in this session (design in DESIGN.md section 4)")}
                  for pid in sorted(TITLES) if pid not in CLAIMED]

manifest = {
    "version": 1,
    "setup_cmd": "./check setup",
    "hooks": {
        "guard": "verif",
        "enable": "no source hooks are needed: every control point is injected through public options (WithAgent, WithClock, WithCollector, the Connection argument, DialConfig.Net); checks build /repo through a go.mod replace directive, with and without the repository's own `debug` tag",
        "baseline_off_cmd": BASELINE_OFF,
        "source_commits": [],
        "add_only": True,
    },
    "engines": [{
        "name": "harness",
        "path": "/verif/harness",
        "serves_properties": sorted(CLAIMED),
        "kind_free_text": "Go module (replace github.com/pion/stun/v3 => /repo) with rapid v1.3.0 properties, small-scope exhaustive generators, native fuzz targets (thorough tier), independent reference oracles in harness/ref; driven by the python3 script ./check",
    }],
    "checks": checks,
    "notes": "All checks are property-based tests / fuzzing against explicit oracles (see DESIGN.md). Exit 2 from ./check means infrastructure/inconclusive, never a violation. Known findings: /verif/known_findings.json.",
    "not_applicable": not_applicable,
}
json.dump(manifest, open("/verif/MANIFEST.json", "w"), indent=1)
print("MANIFEST.json: %d claimed, %d not claimed" % (len(checks), len(not_applicable)))
