package agent

import (
	"encoding/json"
	"errors"
	"fmt"
	"sync"
	"testing"
	"time"

	"github.com/pion/stun/v3"
	"github.com/pion/stun/v3/verifharness/evid"
	"github.com/pion/stun/v3/verifharness/pbt"
	"github.com/pion/stun/v3/verifharness/ref"
	"pgregory.net/rapid"
)

var (
	baseTime   = time.Date(2020, 1, 1, 0, 0, 0, 0, time.UTC)
	customErrs = []error{errors.New("custom error 0"), errors.New("custom error 1"), errors.New("custom error 2")}
)

// tick maps an abstract instant to wall time: 100 microseconds (plus one nanosecond) per unit, so
// that neighbouring instants fall into the same millisecond - a comparison at a coarser
// resolution than time.Time's is visible.
func tick(t int64) time.Time {
	return baseTime.Add(time.Duration(t) * (100*time.Microsecond + time.Nanosecond))
}

func idOf(i int) (id [stun.TransactionIDSize]byte) {
	// ids differ in a single bit so that comparisons on a truncated id would collide
	id[0] = 0xA0
	id[11] = byte(1 << uint(i%8))
	id[5] = byte(i / 8)

	return id
}

func idIndex(id [stun.TransactionIDSize]byte) int {
	for b := 0; b < 8; b++ {
		if id[11] == byte(1<<uint(b)) {
			if i := int(id[5])*8 + b; idOf(i) == id {
				return i
			}
		}
	}

	return -1
}

func symErr(err error) string {
	switch {
	case err == nil:
		return "nil"
	case err == stun.ErrAgentClosed: //nolint:errorlint // identity is the contract
		return "closed"
	case err == stun.ErrTransactionExists: //nolint:errorlint
		return "exists"
	case err == stun.ErrTransactionNotExists: //nolint:errorlint
		return "notexists"
	case err == stun.ErrTransactionStopped: //nolint:errorlint
		return "stopped"
	case err == stun.ErrTransactionTimeOut: //nolint:errorlint
		return "timeout"
	}
	for k, e := range customErrs {
		if err == e { //nolint:errorlint
			return ref.CustomErrName(k)
		}
	}

	return "other:" + err.Error()
}

// recorder collects handler events; handler h tags its events with h.
type recorder struct {
	mu     sync.Mutex
	events []ref.AgentEvent
	msgs   map[*stun.Message]int
}

func (r *recorder) handler(h int) stun.Handler {
	return func(e stun.Event) {
		ev := ref.AgentEvent{H: h, ID: idIndex(e.TransactionID), Err: symErr(e.Error)}
		r.mu.Lock()
		if e.Message != nil {
			ev.Msg = r.msgs[e.Message]
			if ev.Msg == 0 {
				ev.Msg = -1 // a message the harness never passed in
			}
		}
		r.events = append(r.events, ev)
		r.mu.Unlock()
	}
}

func (r *recorder) take() []ref.AgentEvent {
	r.mu.Lock()
	defer r.mu.Unlock()
	ev := r.events
	r.events = nil

	return ev
}

// agentRun executes a call sequence on a real Agent and the model in lock step.
type agentRun struct {
	a        *stun.Agent
	rec      *recorder
	hs       []stun.Handler
	model    *ref.AgentModel
	msgToken int
}

func newAgentRun() *agentRun {
	r := &agentRun{rec: &recorder{msgs: map[*stun.Message]int{}}, model: ref.NewAgentModel(0)}
	r.hs = []stun.Handler{r.rec.handler(0), r.rec.handler(1)}
	r.a = stun.NewAgent(r.hs[0])

	return r
}

func (r *agentRun) do(c ref.AgentCall) (ret string, events []ref.AgentEvent, token int) {
	var err error
	switch c.Op {
	case "start":
		err = r.a.Start(idOf(c.ID), tick(c.T))
	case "stop":
		err = r.a.Stop(idOf(c.ID))
	case "stoperr":
		if c.E < 0 {
			err = r.a.StopWithError(idOf(c.ID), nil) // a nil error is passed through as given
		} else {
			err = r.a.StopWithError(idOf(c.ID), customErrs[c.E])
		}
	case "process":
		r.msgToken++
		token = r.msgToken
		m := &stun.Message{TransactionID: idOf(c.ID), Type: stun.MessageType{Method: stun.MethodBinding, Class: stun.MessageClass(c.C & 3)}}
		r.rec.mu.Lock()
		r.rec.msgs[m] = token
		r.rec.mu.Unlock()
		err = r.a.Process(m)
	case "collect":
		err = r.a.Collect(tick(c.T))
	case "sethandler":
		err = r.a.SetHandler(r.hs[c.H])
	case "close":
		err = r.a.Close()
	}

	return symErr(err), r.rec.take(), token
}

// runC13 replays calls; every call's return value and event multiset must be
// the model's. A final Close is appended: afterwards nothing may be pending.
func runC13(calls []ref.AgentCall) error {
	r := newAgentRun()
	seq := append(append([]ref.AgentCall(nil), calls...), ref.AgentCall{Op: "close"}, ref.AgentCall{Op: "collect", T: 1 << 40}, ref.AgentCall{Op: "start", ID: 0, T: 1},
		ref.AgentCall{Op: "process", ID: 0}, ref.AgentCall{Op: "stop", ID: 0}, ref.AgentCall{Op: "stoperr", ID: 1, E: 0}, ref.AgentCall{Op: "sethandler", H: 1},
		ref.AgentCall{Op: "process", ID: 2}, ref.AgentCall{Op: "close"})
	for i, c := range seq {
		var ret string
		var got []ref.AgentEvent
		var token int
		if perr := pbt.Safely(func() { ret, got, token = r.do(c) }); perr != nil {
			return fmt.Errorf("call %d %+v: %w", i, c, perr)
		}
		wantRet, want := r.model.Step(c, token)
		if ret != wantRet {
			return fmt.Errorf("call %d %+v returned %s, specification says %s", i, c, ret, wantRet)
		}
		if !ref.EventsEqual(got, want) {
			return fmt.Errorf("call %d %+v emitted %+v, specification says %+v", i, c, got, want)
		}
	}

	return nil
}

func alphabet(ids int, times []int64) []ref.AgentCall {
	var out []ref.AgentCall
	for id := 0; id < ids; id++ {
		for _, t := range times {
			out = append(out, ref.AgentCall{Op: "start", ID: id, T: t})
		}
		e := id%3 - 1 // -1 = StopWithError(id, nil)
		out = append(out, ref.AgentCall{Op: "stop", ID: id}, ref.AgentCall{Op: "stoperr", ID: id, E: e}, ref.AgentCall{Op: "process", ID: id, C: id + 1})
	}
	for _, t := range times {
		out = append(out, ref.AgentCall{Op: "collect", T: t})
	}
	out = append(out, ref.AgentCall{Op: "sethandler", H: 0}, ref.AgentCall{Op: "sethandler", H: 1}, ref.AgentCall{Op: "close"})

	return out
}

func nontrivialSeq(calls []ref.AgentCall) bool {
	m := ref.NewAgentModel(0)
	terminated := map[int]int{}
	nt := false
	for _, c := range calls {
		if m.Closed {
			nt = true
		}
		if c.Op == "collect" {
			for _, d := range m.Tx {
				if d == c.T {
					nt = true
				}
			}
		}
		if c.Op == "stop" || c.Op == "stoperr" || c.Op == "process" {
			terminated[c.ID]++
			if terminated[c.ID] > 1 {
				nt = true
			}
		}
		m.Step(c, 0)
	}

	return nt
}

func sigSeq(calls []ref.AgentCall) uint64 {
	h := evid.NewH()
	for _, c := range calls {
		h.Str(c.Op).I(c.ID).U(uint64(c.T)).I(c.H).I(c.E).I(c.C)
	}

	return h.Sum()
}

func c13Notes(rec *evid.Rec) {
	rec.Note("rule", "(a) every call sequence up to a depth bound over the alphabet {Start(id,deadline), Stop(id), StopWithError(id,e), Process(id), Collect(t), SetHandler(h0|h1), Close} with 3 ids x 4 instants "+
		"(deadlines and collect times share the same instants so <, == and > all occur), each followed by Close, Collect and Start to probe the closed state; "+
		"(b) breadth-first coverage of every reachable abstract state x every next call; (c) rapid sequences of up to 200 calls over 12 ids and random deadlines. "+
		"Oracle: after every call the return value and the multiset of handler events (handler identity, transaction id, error identity, message pointer) equal those of the abstract transaction table. "+
		"Non-trivial = a Collect at exactly a registered deadline, a call after Close, or a second terminator for the same id; distinct by call sequence.")
	rec.Note("assumptions", []string{"handlers in these sequential histories do not call back into the agent (re-entrancy is exercised by C14)"})
}

func TestC13_Exhaustive(t *testing.T) {
	rec := evid.For("C13")
	c13Notes(rec)
	alpha := alphabet(3, []int64{10, 11, 12, 13})
	depth := evid.Pick(4, 5)
	shard, nshards := evid.Shard()
	loc := evid.NewLocal()
	seq := make([]ref.AgentCall, 0, depth)
	var idx int64
	failed := false
	var walk func(d int) bool
	walk = func(d int) bool {
		if d > 0 {
			idx++
			if int(idx%int64(nshards)) == shard {
				loc.Case(fmt.Sprintf("depth-%d", d), sigSeq(seq), nontrivialSeq(seq))
				if err := runC13(seq); err != nil {
					pbt.Fail(t, rec, "seq", append([]ref.AgentCall(nil), seq...), "%v", err)
					failed = true

					return false
				}
			}
		}
		if d == depth {
			return true
		}
		for _, c := range alpha {
			seq = append(seq, c)
			ok := walk(d + 1)
			seq = seq[:len(seq)-1]
			if !ok {
				return false
			}
		}

		return true
	}
	walk(0)
	rec.Merge(loc)
	rec.Note("exhaustive_depth", depth)
	rec.Note("alphabet_size", len(alpha))
	rec.Sample("depth", []ref.AgentCall{{Op: "start", ID: 1, T: 20}, {Op: "collect", T: 20}, {Op: "collect", T: 30}})
	rec.Exhaustive(fmt.Sprintf("all call sequences up to depth %d over 3 ids x 4 instants", depth), !failed)
}

// TestC13_States covers every reachable abstract state x every next call.
func TestC13_States(t *testing.T) {
	rec := evid.For("C13")
	c13Notes(rec)
	alpha := alphabet(3, []int64{10, 11, 12, 13})
	type node struct{ path []ref.AgentCall }
	seen := map[string]node{}
	start := ref.NewAgentModel(0)
	seen[start.Key()] = node{}
	queue := []string{start.Key()}
	states := map[string]*ref.AgentModel{start.Key(): start}
	transitions := 0
	for len(queue) > 0 {
		k := queue[0]
		queue = queue[1:]
		n := seen[k]
		for _, c := range alpha {
			path := append(append([]ref.AgentCall(nil), n.path...), c)
			transitions++
			rec.Case("state-x-call", sigSeq(path), nontrivialSeq(path), nil)
			if err := runC13(path); err != nil {
				pbt.Fail(t, rec, "seq", path, "%v", err)

				return
			}
			m := states[k].Clone()
			m.Step(c, 0)
			if _, ok := seen[m.Key()]; !ok {
				seen[m.Key()] = node{path: path}
				states[m.Key()] = m
				queue = append(queue, m.Key())
			}
		}
	}
	rec.Note("abstract_states", len(seen))
	rec.Note("state_call_pairs", transitions)
	rec.Exhaustive("every reachable abstract table state (3 ids x 4 deadlines x handler x closed) x every next call", true)
}

func TestC13_Rapid(t *testing.T) {
	rec := evid.For("C13")
	c13Notes(rec)
	genCall := rapid.Custom(func(rt *rapid.T) ref.AgentCall {
		op := rapid.SampledFrom([]string{"start", "start", "start", "stop", "stoperr", "process", "collect", "collect", "sethandler", "close"}).Draw(rt, "op")
		c := ref.AgentCall{Op: op}
		switch op {
		case "start":
			c.ID, c.T = rapid.IntRange(0, 11).Draw(rt, "id"), int64(rapid.IntRange(0, 50).Draw(rt, "deadline"))
		case "stop":
			c.ID = rapid.IntRange(0, 11).Draw(rt, "id")
		case "process":
			c.ID, c.C = rapid.IntRange(0, 11).Draw(rt, "id"), rapid.IntRange(0, 3).Draw(rt, "class")
		case "stoperr":
			c.ID, c.E = rapid.IntRange(0, 11).Draw(rt, "id"), rapid.IntRange(-1, 2).Draw(rt, "e")
		case "collect":
			c.T = int64(rapid.IntRange(0, 51).Draw(rt, "time"))
		case "sethandler":
			c.H = rapid.IntRange(0, 1).Draw(rt, "h")
		case "close":
			if rapid.IntRange(0, 3).Draw(rt, "reallyClose") != 0 {
				c = ref.AgentCall{Op: "collect", T: int64(rapid.IntRange(0, 51).Draw(rt, "time"))}
			}
		}

		return c
	})
	pbt.Check(t, rec, "seq", evid.Pick(5000, 100000), func(rt *rapid.T) (any, error) {
		minLen := rapid.SampledFrom([]int{1, 1, 10, 40, 120}).Draw(rt, "minLen")
		calls := rapid.SliceOfN(genCall, minLen, 200).Draw(rt, "calls")
		rec.Case("random", sigSeq(calls), nontrivialSeq(calls), func() any { return calls })

		return calls, runC13(calls)
	})
}

// TestC13_Wide registers many transactions at once: every expired one must time out exactly
// once in a single Collect, every remaining one must be closed exactly once.
func TestC13_Wide(t *testing.T) {
	rec := evid.For("C13")
	c13Notes(rec)
	for _, n := range []int{1, 50, 99, 100, 101, 128, 250, 600} {
		for _, split := range []int{0, n / 3, n - 1, n} {
			var calls []ref.AgentCall
			for i := 0; i < n; i++ {
				d := int64(10)
				if i >= split {
					d = 30
				}
				calls = append(calls, ref.AgentCall{Op: "start", ID: i, T: d})
			}
			calls = append(calls, ref.AgentCall{Op: "collect", T: 10}, ref.AgentCall{Op: "collect", T: 11}, ref.AgentCall{Op: "sethandler", H: 1},
				ref.AgentCall{Op: "collect", T: 11}, ref.AgentCall{Op: "start", ID: 0, T: 50})
			rec.Case("wide", sigSeq(calls), true, func() any {
				return map[string]int{"transactions": n, "expired_at_first_effective_collect": split}
			})
			if err := runC13(calls); err != nil {
				pbt.Fail(t, rec, "seq", calls, "%v", err)

				return
			}
		}
	}
}

func TestC13_Replay(t *testing.T) {
	rec := evid.For("C13")
	for _, path := range evid.ReplayFiles() {
		rp, err := evid.LoadReplay(path)
		if err != nil {
			t.Fatalf("cannot load %s: %v", path, err)
		}
		if rp.Property != "C13" {
			continue
		}
		var calls []ref.AgentCall
		if err := json.Unmarshal(rp.Case, &calls); err != nil {
			t.Fatalf("bad replay %s: %v", path, err)
		}
		rec.Count("replays_run", 1)
		if err := runC13(calls); err != nil {
			rec.ReplayFailed(path, err.Error())
			t.Errorf("replay %s still fails: %v", path, err)
		}
	}
}
