package agent

import (
	"bytes"
	"encoding/json"
	"fmt"
	"os"
	"runtime"
	"strconv"
	"sync"
	"sync/atomic"
	"testing"
	"time"

	"github.com/anishathalye/porcupine"
	"github.com/pion/stun/v3"
	"github.com/pion/stun/v3/verifharness/evid"
	"github.com/pion/stun/v3/verifharness/pbt"
	"github.com/pion/stun/v3/verifharness/ref"
	"pgregory.net/rapid"
)

// cspec is one call of a concurrent history with an optional re-entrant call
// made from inside the handler when this call's (non-close) event is delivered.
type cspec struct {
	Call    ref.AgentCall  `json:"call"`
	Reentry *ref.AgentCall `json:"reentry,omitempty"`
	Yields  int            `json:"yields,omitempty"`
}

type c14Case struct {
	Threads [][]cspec `json:"threads"`
	Repeat  int       `json:"repeat,omitempty"` // replay: how often to re-run the schedule-dependent case
}

func goid() int64 {
	var buf [64]byte
	n := runtime.Stack(buf[:], false)
	f := bytes.Fields(buf[:n])
	id, _ := strconv.ParseInt(string(f[1]), 10, 64)

	return id
}

// opRec is one completed call with its stamps, result and delivered events.
type opRec struct {
	call     ref.AgentCall
	token    int
	inv, ret int64
	result   string
	events   []ref.AgentEvent
	reentry  *ref.AgentCall
	nested   bool
}

type cworld struct {
	a       *stun.Agent
	clock   atomic.Int64
	mu      sync.Mutex
	stacks  map[int64][]*opRec // goroutine id -> active calls (innermost last)
	done    []*opRec
	msgs    map[*stun.Message]int
	errs    map[error]int // unique StopWithError errors -> token
	tokens  atomic.Int64
	hs      []stun.Handler
	stray   []string
	freshID atomic.Int64
}

type uniqErr struct{ k int }

func (e *uniqErr) Error() string { return "unique stop error " + strconv.Itoa(e.k) }

func newCWorld() *cworld {
	w := &cworld{stacks: map[int64][]*opRec{}, msgs: map[*stun.Message]int{}, errs: map[error]int{}}
	w.hs = []stun.Handler{w.handler(0), w.handler(1)}
	w.a = stun.NewAgent(w.hs[0])
	w.freshID.Store(32)

	return w
}

func (w *cworld) handler(h int) stun.Handler {
	return func(e stun.Event) {
		g := goid()
		ev := ref.AgentEvent{H: h, ID: idIndex(e.TransactionID)}
		w.mu.Lock()
		switch {
		case e.Error == nil:
			ev.Err = "nil"
		default:
			if k, ok := w.errs[e.Error]; ok {
				ev.Err = "uniq:" + strconv.Itoa(k)
			} else {
				ev.Err = symErr(e.Error)
			}
		}
		if e.Message != nil {
			ev.Msg = w.msgs[e.Message]
			if ev.Msg == 0 {
				ev.Msg = -1
			}
		}
		st := w.stacks[g]
		var top *opRec
		if len(st) > 0 {
			top = st[len(st)-1]
			top.events = append(top.events, ev)
		} else {
			w.stray = append(w.stray, fmt.Sprintf("event %+v delivered on goroutine %d outside any agent call", ev, g))
		}
		var re *ref.AgentCall
		if top != nil && top.reentry != nil && ev.Err != "closed" {
			re = top.reentry
			top.reentry = nil
		}
		w.mu.Unlock()
		if re != nil {
			c := *re
			if c.Op == "start" {
				c.ID = int(w.freshID.Add(1)) // a fresh id, never shared
			}
			w.do(c, nil, true)
		}
	}
}

// do performs one agent call, recording stamps, result and events.
func (w *cworld) do(c ref.AgentCall, reentry *ref.AgentCall, nested bool) {
	g := goid()
	r := &opRec{call: c, reentry: reentry, nested: nested}
	var msg *stun.Message
	var uerr error
	switch c.Op {
	case "process":
		r.token = int(w.tokens.Add(1))
		msg = &stun.Message{TransactionID: idOf(c.ID), Type: stun.MessageType{Method: stun.MethodBinding, Class: stun.MessageClass(c.C & 3)}}
	case "stoperr":
		r.token = int(w.tokens.Add(1))
		uerr = &uniqErr{r.token}
	}
	w.mu.Lock()
	if msg != nil {
		w.msgs[msg] = r.token
	}
	if uerr != nil {
		w.errs[uerr] = r.token
	}
	w.stacks[g] = append(w.stacks[g], r)
	w.mu.Unlock()
	r.inv = w.clock.Add(1)
	var err error
	switch c.Op {
	case "start":
		err = w.a.Start(idOf(c.ID), tick(c.T))
	case "stoperr":
		err = w.a.StopWithError(idOf(c.ID), uerr)
	case "stop":
		err = w.a.Stop(idOf(c.ID))
	case "process":
		err = w.a.Process(msg)
	case "collect":
		err = w.a.Collect(tick(c.T))
	case "sethandler":
		err = w.a.SetHandler(w.hs[c.H])
	case "close":
		err = w.a.Close()
	}
	r.ret = w.clock.Add(1)
	r.result = symErr(err)
	w.mu.Lock()
	st := w.stacks[g]
	w.stacks[g] = st[:len(st)-1]
	w.done = append(w.done, r)
	w.mu.Unlock()
}

// ---- porcupine model ---------------------------------------------------------

type pIn struct {
	c     ref.AgentCall
	token int
}

type pOut struct {
	ret    string
	events []ref.AgentEvent
}

// stepConc is ref.AgentModel.Step with the concurrent harness's error naming
// (unique stop errors).
func stepConc(m *ref.AgentModel, in pIn) (string, []ref.AgentEvent) {
	c := in.c
	if c.Op == "stoperr" {
		ret, ev := m.Step(ref.AgentCall{Op: "stop", ID: c.ID}, 0)
		for i := range ev {
			ev[i].Err = "uniq:" + strconv.Itoa(in.token)
		}

		return ret, ev
	}

	return m.Step(c, in.token)
}

var agentPorcupine = porcupine.Model{
	Init: func() interface{} { return ref.NewAgentModel(0) },
	Step: func(state, input, output interface{}) (bool, interface{}) {
		m := state.(*ref.AgentModel).Clone()  //nolint:forcetypeassert
		in, out := input.(pIn), output.(pOut) //nolint:forcetypeassert
		ret, ev := stepConc(m, in)
		if ret != out.ret || !ref.EventsEqual(ev, out.events) {
			return false, state
		}

		return true, m
	},
	Equal: func(a, b interface{}) bool {
		return a.(*ref.AgentModel).Key() == b.(*ref.AgentModel).Key() //nolint:forcetypeassert
	},
	DescribeOperation: func(input, output interface{}) string {
		return fmt.Sprintf("%+v -> %+v", input, output)
	},
}

// runC14Once executes the case once; it returns a violation or nil, whether
// calls on the same id overlapped, and whether porcupine was inconclusive.
func runC14Once(c c14Case) (err error, overlapped, unknown bool) {
	w := newCWorld()
	var wg sync.WaitGroup
	startGate := make(chan struct{})
	for _, th := range c.Threads {
		th := th
		wg.Add(1)
		go func() {
			defer wg.Done()
			<-startGate
			for _, s := range th {
				for i := 0; i < s.Yields; i++ {
					runtime.Gosched()
				}
				w.do(s.Call, s.Reentry, false)
			}
		}()
	}
	finished := make(chan struct{})
	go func() { wg.Wait(); close(finished) }()
	close(startGate)
	select {
	case <-finished:
	case <-time.After(30 * time.Second):
		buf := make([]byte, 1<<20)
		n := runtime.Stack(buf, true)

		return fmt.Errorf("deadlock: goroutines did not finish within 30 s\n%s", buf[:n]), false, false
	}
	// final Close so that every registered transaction must have terminated
	w.do(ref.AgentCall{Op: "close"}, nil, false)
	w.mu.Lock()
	defer w.mu.Unlock()
	if len(w.stray) > 0 {
		return fmt.Errorf("%s", w.stray[0]), false, false
	}
	// (d) direct: per id never touched by Process, successful starts == terminal events
	starts, terms, processed := map[int]int{}, map[int]int{}, map[int]bool{}
	for _, r := range w.done {
		if r.call.Op == "start" && r.result == "nil" {
			starts[r.call.ID]++
		}
		if r.call.Op == "process" {
			processed[r.call.ID] = true
		}
		for _, e := range r.events {
			if e.Err != "nil" {
				terms[e.ID]++
			}
		}
	}
	for id, n := range starts {
		if !processed[id] && terms[id] != n {
			return fmt.Errorf("transaction id %d: %d successful Start calls but %d terminal events (each registration must end exactly once)", id, n, terms[id]), false, false
		}
	}
	for id, n := range terms {
		if n > starts[id] {
			return fmt.Errorf("transaction id %d: %d terminal events for %d successful Start calls", id, n, starts[id]), false, false
		}
	}
	// overlap measurement
	for i, a := range w.done {
		for _, b := range w.done[i+1:] {
			if a.call.ID == b.call.ID && a.inv < b.ret && b.inv < a.ret && (a.call.Op != "collect" && a.call.Op != "sethandler") {
				overlapped = true
			}
		}
	}
	// (c) linearizability against the sequential specification
	ops := make([]porcupine.Operation, 0, len(w.done))
	for i, r := range w.done {
		ops = append(ops, porcupine.Operation{
			ClientId: i, Input: pIn{r.call, r.token}, Call: r.inv,
			Output: pOut{r.result, r.events}, Return: r.ret,
		})
	}
	res := porcupine.CheckOperationsTimeout(agentPorcupine, ops, 20*time.Second)
	switch res {
	case porcupine.Illegal:
		desc := ""
		for _, r := range w.done {
			desc += fmt.Sprintf("\n  [%d,%d] %+v token=%d -> %s %+v", r.inv, r.ret, r.call, r.token, r.result, r.events)
		}

		return fmt.Errorf("history is not linearizable with respect to the sequential transaction-table specification:%s", desc), overlapped, false
	case porcupine.Unknown:
		unknown = true
	}

	return nil, overlapped, unknown
}

func genCSpec(ids int) *rapid.Generator[cspec] {
	return rapid.Custom(func(rt *rapid.T) cspec {
		op := rapid.SampledFrom([]string{"start", "start", "start", "stoperr", "stoperr", "stop", "process", "collect", "collect", "sethandler", "close"}).Draw(rt, "op")
		c := ref.AgentCall{Op: op}
		switch op {
		case "start":
			c.ID, c.T = rapid.IntRange(0, ids-1).Draw(rt, "id"), int64(rapid.SampledFrom([]int{10, 20, 30}).Draw(rt, "deadline"))
		case "stop", "stoperr":
			c.ID = rapid.IntRange(0, ids-1).Draw(rt, "id")
		case "process":
			c.ID, c.C = rapid.IntRange(0, ids-1).Draw(rt, "id"), rapid.IntRange(0, 3).Draw(rt, "class")
		case "collect":
			c.T = int64(rapid.SampledFrom([]int{10, 20, 21, 31}).Draw(rt, "time"))
		case "sethandler":
			c.H = rapid.IntRange(0, 1).Draw(rt, "h")
		case "close":
			if rapid.IntRange(0, 4).Draw(rt, "reallyClose") != 0 {
				c = ref.AgentCall{Op: "collect", T: 31}
			}
		}
		s := cspec{Call: c, Yields: rapid.IntRange(0, 3).Draw(rt, "yields")}
		if rapid.IntRange(0, 3).Draw(rt, "reenter") == 0 {
			r := ref.AgentCall{Op: rapid.SampledFrom([]string{"start", "stoperr", "collect", "sethandler"}).Draw(rt, "reOp")}
			switch r.Op {
			case "start":
				r.T = 20
			case "stoperr":
				r.ID = rapid.IntRange(0, ids-1).Draw(rt, "reId")
			case "collect":
				r.T = int64(rapid.SampledFrom([]int{10, 21, 31}).Draw(rt, "reTime"))
			case "sethandler":
				r.H = rapid.IntRange(0, 1).Draw(rt, "reH")
			}
			s.Reentry = &r
		}

		return s
	})
}

func c14Notes(rec *evid.Rec) {
	rec.Note("rule", "2..16 goroutines each issuing 2..8 random calls (Start, Stop, StopWithError with a unique error, Process with a unique message, Collect, SetHandler, occasional Close) on 1..4 shared ids and 3 deadlines, "+
		"with rapid-drawn yields; one call in four makes its handler call back into the agent (Start of a fresh id, StopWithError, Collect, SetHandler) for events not originating from Close. Built with -race. "+
		"Every call records invocation/return stamps from one atomic counter, its result and the events delivered during it (attributed through a per-goroutine stack of active calls). "+
		"Oracles: race detector; 30 s watchdog (deadlock); porcupine linearizability check of the recorded history against the sequential transaction-table model (Unknown on timeout is counted, not a violation); "+
		"directly: per id never touched by Process, successful Starts == terminal events after a final Close. Non-trivial = a history in which two calls on the same id overlapped in time (measured from the stamps); distinct by generated plan.")
	rec.Note("assumptions", []string{"the Go scheduler chooses the interleavings; conflicts are provoked by the tiny id set and drawn yields, not enumerated (DESIGN section 7)",
		"handlers do not call back into the agent on ErrAgentClosed events (Close delivers them under its lock; the property excludes it)"})
}

func TestC14_Concurrent(t *testing.T) {
	rec := evid.For("C14")
	c14Notes(rec)
	if os.Getenv("VERIF_RACE") == "" {
		rec.Note("race_detector", "off in this process")
	} else {
		rec.Note("race_detector", "on")
	}
	pbt.Check(t, rec, "history", evid.Pick(1500, 15000), func(rt *rapid.T) (any, error) {
		ids := rapid.IntRange(1, 4).Draw(rt, "ids")
		nth := rapid.IntRange(2, 16).Draw(rt, "threads")
		per := 8
		if nth > 8 {
			per = 4
		}
		var c c14Case
		for i := 0; i < nth; i++ {
			c.Threads = append(c.Threads, rapid.SliceOfN(genCSpec(ids), 2, per).Draw(rt, "calls"))
		}
		err, overlapped, unknown := runC14Once(c)
		rec.Case(fmt.Sprintf("threads-%d", (nth+3)/4*4), evid.NewH().Str(fmt.Sprint(c)).Sum(), overlapped, func() any { return c })
		if unknown {
			rec.Count("porcupine_unknown", 1)
		}

		return c, err
	})
}

func TestC14_Replay(t *testing.T) {
	rec := evid.For("C14")
	for _, path := range evid.ReplayFiles() {
		rp, err := evid.LoadReplay(path)
		if err != nil {
			t.Fatalf("cannot load %s: %v", path, err)
		}
		if rp.Property != "C14" || rp.Kind != "history" {
			continue
		}
		var c c14Case
		if err := json.Unmarshal(rp.Case, &c); err != nil {
			t.Fatalf("bad replay %s: %v", path, err)
		}
		n := c.Repeat
		if n == 0 {
			n = 300
		}
		rec.Count("replays_run", 1)
		for i := 0; i < n; i++ {
			if err, _, _ := runC14Once(c); err != nil {
				rec.ReplayFailed(path, err.Error())
				t.Errorf("replay %s fails (run %d): %v", path, i, err)

				break
			}
		}
	}
}

var _ = pbt.Safely
