package agent

import (
	"testing"

	"github.com/pion/stun/v3/verifharness/evid"
	"github.com/pion/stun/v3/verifharness/ref"
)

// FuzzAgentSeq: a byte string is read as a call sequence (two bytes per call: operation,
// argument) over 16 ids and deadlines / collect times 0..63 and run through C13's oracle
// (ref.AgentModel: return value and event multiset after every call). The coverage-guided
// fuzzer chooses the sequences; the mapping is total, so every input is a valid history.
func FuzzAgentSeq(f *testing.F) {
	f.Add([]byte{0, 0x11, 0, 0x12, 6, 0x20, 3, 1, 9, 0})
	f.Add([]byte{0, 0x01, 0, 0x01, 4, 1, 5, 1, 6, 2, 8, 1, 9, 0, 0, 3})
	f.Add([]byte{8, 1, 0, 0x35, 0, 0x36, 0, 0x37, 6, 0x36, 6, 0x37, 6, 0x38, 9, 0})
	f.Add([]byte{})
	rec := evid.For("C13")
	f.Fuzz(func(t *testing.T, data []byte) {
		if len(data) > 600 {
			return
		}
		var calls []ref.AgentCall
		for i := 0; i+1 < len(data); i += 2 {
			op, arg := data[i]%11, int(data[i+1])
			id, tm := arg&0x0F, int64(arg>>4)
			if i+3 < len(data) && op <= 2 {
				tm = tm*4 + int64(data[i+2]&3) // finer deadlines: 0..63
			}
			switch op {
			case 0, 1, 2:
				calls = append(calls, ref.AgentCall{Op: "start", ID: id, T: tm})
			case 3:
				calls = append(calls, ref.AgentCall{Op: "stop", ID: id})
			case 4:
				calls = append(calls, ref.AgentCall{Op: "stoperr", ID: id, E: arg>>4%4 - 1})
			case 5:
				calls = append(calls, ref.AgentCall{Op: "process", ID: id, C: arg >> 4 % 4})
			case 6, 7:
				calls = append(calls, ref.AgentCall{Op: "collect", T: int64(arg % 65)})
			case 8:
				calls = append(calls, ref.AgentCall{Op: "sethandler", H: arg & 1})
			case 9:
				if arg%4 == 0 {
					calls = append(calls, ref.AgentCall{Op: "close"})
				} else {
					calls = append(calls, ref.AgentCall{Op: "collect", T: int64(arg % 65)})
				}
			case 10:
				calls = append(calls, ref.AgentCall{Op: "process", ID: id, C: 2})
			}
		}
		if err := runC13(calls); err != nil {
			rec.Violation("seq", calls, err.Error())
			t.Fatalf("C13: %v", err)
		}
	})
}
