package client

import (
	"bytes"
	"errors"
	"fmt"
	"io"
	"net"
	"os"
	"sort"
	"sync"
	"time"

	"github.com/pion/stun/v3"
	"github.com/pion/stun/v3/verifharness/ref"
	"github.com/pion/stun/v3/verifharness/sim"
)

// hop is one step of a client history.
type hop struct {
	Op   string `json:"op"`               // start do indicate respond unknown garbage readerr tick advance fail close setrto mutate
	ID   int    `json:"id,omitempty"`     // transaction id index
	Size int    `json:"size,omitempty"`   // request size (start/do/indicate), response size (respond)
	At   string `json:"at,omitempty"`     // tick: before | at | after | far  (relative to the earliest deadline)
	RTO  int64  `json:"rto,omitempty"`    // setrto, nanoseconds
	Junk string `json:"junk,omitempty"`   // garbage datagram (hex)
	Re   *hop   `json:"re,omitempty"`     // start only: a Start issued from INSIDE this transaction's handler when it completes
	Ref  int    `json:"refuse,omitempty"` // start/do: > 0 = the (custom) agent refuses this Start with error value refuseErrValues[Ref-1]
}

type clientCase struct {
	RTO           int64 `json:"rto"` // nanoseconds
	NoRetransmit  bool  `json:"no_retransmit,omitempty"`
	Fallback      bool  `json:"fallback,omitempty"`
	NoConnClose   bool  `json:"no_conn_close,omitempty"`
	ConnCloseErr  bool  `json:"conn_close_err,omitempty"`  // the connection's Close returns an error
	AgentCloseErr bool  `json:"agent_close_err,omitempty"` // the agent's Close returns an error
	CloseErrKind  int   `json:"close_err_kind,omitempty"`  // which error values are injected (closeErrValues): C15 says "a CloseErr carrying the agent and connection errors" whatever they are
	Ops           []hop `json:"ops"`
}

// txID maps an index to a transaction id; neighbouring indices differ in one
// bit and all share an 11-byte prefix pattern, so comparisons on a truncated
// or masked id would collide.
func txID(i int) (id [stun.TransactionIDSize]byte) {
	for k := range id {
		id[k] = 0x5A
	}
	id[11] = byte(i)
	id[10] = byte(i >> 8)
	if i%2 == 1 { // odd ids differ from their even neighbour in the FIRST byte as well
		id[0] ^= 0x01
	}

	return id
}

// request builds a request of exactly size bytes (>= 20, multiple of 4 after rounding).
func request(id int, size int) *stun.Message {
	tid := txID(id)
	var attrs []ref.EAttr
	body := size - 20
	for body >= 4 {
		l := body - 4
		if l > 65000 {
			l = 65000
		}
		l -= l % 4
		v := make([]byte, l)
		for i := range v {
			v[i] = byte(i*7 + id)
		}
		attrs = append(attrs, ref.EAttr{Type: 0x7F01, Value: v})
		body -= 4 + l
	}
	raw := ref.Encode(1, 0, tid, attrs)
	m := new(stun.Message)
	if err := stun.Decode(raw, m); err != nil {
		panic("harness: request does not decode: " + err.Error())
	}

	return m
}

// response builds a success response for id carrying a unique payload.
func response(id int, serial int, size int) []byte {
	// The client matches on the 96-bit id alone (C12: "an incoming message is delivered to the
	// handler of the in-flight transaction whose id equals the message's"), so the class and the
	// method vary with the serial: mostly success responses, also error responses, indications
	// and requests, Binding and other methods.
	class := []uint8{2, 2, 3, 2, 1, 2, 0, 3}[serial%8]
	method := []uint16{1, 1, 1, 3, 0xFFF}[serial%5]
	if size == 20 {
		return ref.Encode(method, class, txID(id), nil) // header-only
	}
	payload := []byte(fmt.Sprintf("resp-%d-%d", id, serial))
	attrs := []ref.EAttr{{Type: 0x7F02, Value: payload}}
	if extra := size - 20 - 4 - ref.Pad(len(payload)) - 4; extra > 0 {
		v := make([]byte, extra-extra%4)
		for i := range v {
			v[i] = byte(serial + i)
		}
		attrs = append(attrs, ref.EAttr{Type: 0x7F03, Value: v})
	}

	return ref.Encode(method, class, txID(id), attrs)
}

// hev is one handler invocation as observed.
type hev struct {
	Inst  int    // transaction instance (-1: fallback handler)
	Kind  string // response timeout writeerr closed other:<text>
	Raw   []byte // copy of event.Message.Raw taken inside the callback
	TID   [12]byte
	Stamp int64
	At    time.Duration
}

func classifyEvent(e stun.Event) string {
	var se stun.StopErr
	switch {
	case e.Error == nil && e.Message != nil:
		return "response"
	case e.Error == nil:
		return "other:nil error and nil message"
	case errors.Is(e.Error, stun.ErrTransactionTimeOut):
		return "timeout"
	case errors.Is(e.Error, sim.ErrInjectedWrite), errors.Is(e.Error, sim.ErrConnClosed):
		return "writeerr"
	case errors.As(e.Error, &se) && (errors.Is(se.Cause, sim.ErrInjectedWrite) || errors.Is(se.Cause, sim.ErrConnClosed)):
		if se.Err == nil {
			// StopErr is documented as "Client fails to stop transaction while
			// processing error": one without a stop failure is not the error
			// of the failed (re)transmission.
			return "other:StopErr without a stop failure wrapping " + se.Cause.Error()
		}

		return "writeerr"
	case errors.Is(e.Error, stun.ErrAgentClosed), errors.Is(e.Error, stun.ErrClientClosed):
		return "closed"
	}

	return "other:" + e.Error.Error()
}

// mtx is the model's view of one in-flight transaction.
type mtx struct {
	inst     int
	id       int
	k        int
	deadline time.Duration
	raw      []byte
	rto      time.Duration
	isDo     bool
}

type inst struct {
	re        *hop   // nested Start to issue from the handler (pending)
	reInst    int    // instance number of the nested transaction once the model has scheduled it (0 = none)
	reWant    string // expected result class of the nested Start
	reGot     string
	reDone    bool
	reApplied bool
	reMsg     *stun.Message
	id        int
	started   bool // Start/Do returned nil
	isDo      bool
	doDone    chan error
	expected  int // handler invocations the model has predicted so far
	msg       *stun.Message
}

// engine runs a history against the real client and the model in lock step.
type engine struct {
	c clientCase

	errConn, errAgent error // the values injected into the connection's / the agent's Close

	refuseMu  sync.Mutex
	refuseID  [stun.TransactionIDSize]byte
	refuseErr error // non-nil only while the engine is inside a Start that the agent is to refuse
	w         *sim.World
	mu        sync.Mutex

	events   []hev
	seenEv   int
	seenWr   int
	insts    []*inst
	serial   int
	tx       map[int]*mtx // model table
	closed   bool
	rtoCur   time.Duration
	n        int
	failArm  map[int]int
	lastResp map[int][]byte

	// statistics for the non-trivial rules
	st struct {
		nonFirstResponse  bool // a transaction ended by something other than its first response
		retransmissions   int
		bigRetransmit     bool
		collectAtDeadline bool
		setRTOBetween     bool
		reuseBetween      bool
		outOfOrder        bool
		maxInFlight       int
		closeInFlight     bool
		refused           bool
		lazy              int // due transactions the client did not act on at a tick (allowed by the bounds, counted)
	}
}

func newEngine(c clientCase) (*engine, error) {
	e := &engine{c: c, tx: map[int]*mtx{}, failArm: map[int]int{}, lastResp: map[int][]byte{}}
	e.rtoCur = time.Duration(c.RTO)
	e.n = 7
	if c.NoRetransmit {
		e.n = 0
	}
	o := sim.Options{RTO: e.rtoCur, NoRetransmit: c.NoRetransmit, NoConnClose: c.NoConnClose}
	if c.Fallback {
		o.Fallback = e.handlerFor(-1)
	}
	w, err := sim.NewWorld(o)
	if err != nil {
		return nil, err
	}
	e.w = w
	e.errConn, e.errAgent = closeErrValues(c.CloseErrKind)
	w.Agent.Refuse = func(id [stun.TransactionIDSize]byte) error {
		e.refuseMu.Lock()
		defer e.refuseMu.Unlock()
		if e.refuseErr != nil && id == e.refuseID {
			return e.refuseErr
		}

		return nil
	}
	if c.ConnCloseErr {
		w.Conn.CloseErr = e.errConn
	}
	if c.AgentCloseErr {
		w.Agent.CloseErr = e.errAgent
	}

	return e, nil
}

var (
	errConnClose  = errors.New("injected connection close error")
	errAgentClose = errors.New("injected agent close error")
)

// refuseErrValues: what a ClientAgent may answer to Start. C10: "if Start returns an error the handler is
// never invoked" - whatever the error is, also when it is one of the library's own sentinels.
var refuseErrValues = []error{
	errors.New("injected agent refusal"),
	stun.ErrAgentClosed,
	fmt.Errorf("agent: %w", stun.ErrAgentClosed),
	stun.ErrTransactionExists,
	io.EOF,
	stun.ErrTransactionTimeOut,
	stun.ErrTransactionStopped,
}

// closeErrValues: the error values a connection / an agent may return from Close. Besides the
// harness's own sentinels: the errors real connections return when closed twice or concurrently
// (net.ErrClosed, io.ErrClosedPipe, wrapped in a *net.OpError), io.EOF, a deadline error, and the
// library's own closed errors. None of them may be swallowed or replaced.
func closeErrValues(kind int) (conn, agent error) {
	switch kind % 8 {
	case 1:
		return net.ErrClosed, stun.ErrAgentClosed
	case 2:
		return io.ErrClosedPipe, io.ErrClosedPipe
	case 3:
		return &net.OpError{Op: "close", Net: "udp", Err: net.ErrClosed}, fmt.Errorf("agent: %w", stun.ErrAgentClosed)
	case 4:
		return io.EOF, io.EOF
	case 5:
		return os.ErrDeadlineExceeded, stun.ErrTransactionTimeOut
	case 6:
		return stun.ErrAgentClosed, net.ErrClosed
	case 7:
		return fmt.Errorf("conn: %w", io.ErrClosedPipe), stun.ErrTransactionStopped
	}

	return errConnClose, errAgentClose
}

func (e *engine) handlerFor(instNo int) stun.Handler {
	return func(ev stun.Event) {
		h := hev{Inst: instNo, Kind: classifyEvent(ev), TID: ev.TransactionID, Stamp: e.w.Seq.Add(1), At: e.w.Clock.Elapsed()}
		if ev.Message != nil {
			h.Raw = append([]byte(nil), ev.Message.Raw...)
			if ev.Message.TransactionID != ev.TransactionID {
				h.Kind = "other:event.Message.TransactionID differs from event.TransactionID"
			} else if why := decodedMatchesRaw(ev.Message); why != "" {
				h.Kind = "other:the Message handed to the handler is not the decode of its own bytes: " + why
			}
		}
		e.mu.Lock()
		e.events = append(e.events, h)
		var nested *inst
		nestedNo := 0
		if instNo >= 0 && instNo < len(e.insts) {
			if in := e.insts[instNo]; in.reInst > 0 && !in.reDone {
				in.reDone = true
				nested, nestedNo = e.insts[in.reInst], in.reInst
			}
		}
		e.mu.Unlock()
		if nested != nil {
			// re-entrant use: a new transaction is started from inside the handler
			err := e.w.Client.Start(nested.reMsg, e.handlerFor(nestedNo))
			e.mu.Lock()
			e.insts[instNo].reGot = startClass(err)
			e.mu.Unlock()
		}
	}
}

// decodedMatchesRaw compares the struct of a message with an independent parse of its raw bytes
// (called inside the callback, while the reader's Message is still valid).
func decodedMatchesRaw(m *stun.Message) string {
	r, ok := ref.Parse(m.Raw)
	if !ok {
		return "raw bytes are not a well-formed message"
	}
	if uint16(m.Type.Method) != r.Method || uint8(m.Type.Class) != r.Class || int(m.Length) != r.Length || m.TransactionID != r.TID {
		return "header fields differ"
	}
	if len(m.Attributes) != len(r.Attrs) {
		return fmt.Sprintf("%d attributes in the struct, %d on the wire", len(m.Attributes), len(r.Attrs))
	}
	for i, a := range m.Attributes {
		if uint16(a.Type) != r.Attrs[i].Type || int(a.Length) != r.Attrs[i].Len || !bytes.Equal(a.Value, r.Attrs[i].Value) {
			return fmt.Sprintf("attribute %d differs", i)
		}
	}

	return ""
}

func startClass(err error) string {
	switch {
	case err == nil:
		return "nil"
	case errors.Is(err, stun.ErrClientClosed):
		return "closed"
	case errors.Is(err, stun.ErrTransactionExists):
		return "exists"
	case isWriteErr(err):
		return "writeerr"
	}

	return "other:" + err.Error()
}

// modelNested is called by the model whenever it delivers a completing event (response, timeout,
// write error) to transaction instNo: if that transaction carries a nested Start, the model
// performs it at time now, after the completed transaction has left the table.
func (e *engine) modelNested(instNo int, ex *expect, now time.Duration) {
	in := e.insts[instNo]
	if in.re == nil || in.reApplied {
		return
	}
	e.prepareNested(instNo)
	in.reApplied = true
	re := in.re
	no := in.reInst
	nin := e.insts[no]
	snapshot := append([]byte(nil), nin.reMsg.Raw...)
	in.reWant = "nil"
	_, exists := e.tx[re.ID]
	switch {
	case e.closed:
		in.reWant = "closed"
	case exists:
		in.reWant = "exists"
	default:
		ex.writes[string(snapshot)]++
		if e.failArm[re.ID] > 0 {
			e.failArm[re.ID]--
			in.reWant = "writeerr"
		} else {
			e.tx[re.ID] = &mtx{inst: no, id: re.ID, deadline: now + e.rtoCur, raw: snapshot, rto: e.rtoCur}
			nin.started = true
		}
	}
}

// prepareNested creates the nested transaction instance (message, handler slot) so that the real
// handler can issue the Start; the model's table is updated by modelNested when the completing
// event is delivered.
func (e *engine) prepareNested(instNo int) {
	in := e.insts[instNo]
	if in.re == nil || in.reInst > 0 {
		return
	}
	size := in.re.Size
	if size < 20 {
		size = 20
	}
	m := request(in.re.ID, size)
	nin := &inst{id: in.re.ID, msg: m, reMsg: m}
	e.mu.Lock()
	e.insts = append(e.insts, nin)
	in.reInst = len(e.insts) - 1
	e.mu.Unlock()
}

// expectation of one step
type expect struct {
	events []hev          // Inst + Kind (+Raw for responses)
	writes map[string]int // multiset of written datagrams (as strings)
}

func newExpect() *expect { return &expect{writes: map[string]int{}} }

func (e *engine) takeEvents() []hev {
	e.mu.Lock()
	defer e.mu.Unlock()
	out := append([]hev(nil), e.events[e.seenEv:]...)
	e.seenEv = len(e.events)

	return out
}

func (e *engine) takeWrites() []sim.WriteRec {
	all, _ := e.w.Conn.Snapshot()
	out := all[e.seenWr:]
	e.seenWr = len(all)

	return out
}

func (e *engine) compare(step string, ex *expect) error {
	got := e.takeEvents()
	key := func(h hev) string { return fmt.Sprintf("%d/%s/%x", h.Inst, h.Kind, h.Raw) }
	gk, wk := make([]string, 0, len(got)), make([]string, 0, len(ex.events))
	for _, h := range got {
		gk = append(gk, key(h))
	}
	for _, h := range ex.events {
		wk = append(wk, key(h))
	}
	sort.Strings(gk)
	sort.Strings(wk)
	if fmt.Sprint(gk) != fmt.Sprint(wk) {
		return fmt.Errorf("%s: handler invocations %s, specification expects %s (instance/kind/message; instance -1 = fallback handler)", step, short(gk), short(wk))
	}
	for _, h := range got {
		if h.Inst >= 0 && h.TID != txID(e.insts[h.Inst].id) {
			return fmt.Errorf("%s: handler of transaction %d (id index %d) received an event for id %x", step, h.Inst, e.insts[h.Inst].id, h.TID)
		}
	}
	if err := e.checkNested(step); err != nil {
		return err
	}
	if err := e.checkDoPending(step); err != nil {
		return err
	}
	wr := e.takeWrites()
	gotW := map[string]int{}
	for _, r := range wr {
		gotW[string(r.Bytes)]++
	}
	if len(gotW) != len(ex.writes) {
		return fmt.Errorf("%s: %d distinct datagrams written (%s), specification expects %d (%s)", step, len(gotW), descW(gotW), len(ex.writes), descW(ex.writes))
	}
	for k, n := range ex.writes {
		if gotW[k] != n {
			return fmt.Errorf("%s: datagram %s written %d times, specification expects %d; written: %s", step, descB([]byte(k)), gotW[k], n, descW(gotW))
		}
	}

	return nil
}

func short(s []string) string {
	if len(s) > 8 {
		return fmt.Sprintf("%v ... (%d)", s[:8], len(s))
	}
	out := fmt.Sprint(s)
	if len(out) > 600 {
		out = out[:600] + "..."
	}

	return out
}

func descB(b []byte) string {
	if len(b) > 28 {
		return fmt.Sprintf("[%d bytes %x..%x]", len(b), b[:20], b[len(b)-4:])
	}

	return fmt.Sprintf("[%d bytes %x]", len(b), b)
}

func descW(m map[string]int) string {
	var parts []string
	for k, n := range m {
		parts = append(parts, fmt.Sprintf("%dx%s", n, descB([]byte(k))))
	}
	sort.Strings(parts)

	return fmt.Sprint(parts)
}

func (e *engine) earliest() (time.Duration, time.Duration, bool) {
	first := true
	var lo, hi time.Duration
	for _, t := range e.tx {
		if first || t.deadline < lo {
			lo = t.deadline
		}
		if first || t.deadline > hi {
			hi = t.deadline
		}
		first = false
	}

	return lo, hi, !first
}

func isWriteErr(err error) bool {
	var se stun.StopErr
	if errors.Is(err, sim.ErrInjectedWrite) {
		return true
	}

	return errors.As(err, &se) && se.Err != nil && (errors.Is(se.Cause, sim.ErrInjectedWrite) || errors.Is(se.Cause, sim.ErrConnClosed))
}

// step executes one hop and checks it against the model.
func (e *engine) step(i int, h hop) error {
	name := fmt.Sprintf("step %d (%s id=%d)", i, h.Op, h.ID)
	ex := newExpect()
	now := e.w.Clock.Elapsed()
	switch h.Op {
	case "start", "do", "indicate":
		size := h.Size
		if size < 20 {
			size = 20
		}
		m := request(h.ID, size)
		snapshot := append([]byte(nil), m.Raw...)
		in := &inst{id: h.ID, isDo: h.Op == "do", msg: m}
		if h.Op == "start" {
			in.re = h.Re
		}
		e.mu.Lock()
		instNo := len(e.insts)
		e.insts = append(e.insts, in)
		e.mu.Unlock()
		// model
		wantErr := "nil"
		_, exists := e.tx[h.ID]
		switch {
		case e.closed:
			wantErr = "closed"
		case h.Op != "indicate" && exists:
			wantErr = "exists"
		case h.Op != "indicate" && h.Ref > 0:
			// the agent refuses: Start returns its error, nothing is written, nothing stays registered
			wantErr = "refused"
			e.refuseMu.Lock()
			e.refuseID, e.refuseErr = txID(h.ID), refuseErrValues[(h.Ref-1)%len(refuseErrValues)]
			e.refuseMu.Unlock()
			e.st.refused = true
		default:
			ex.writes[string(snapshot)]++
			if e.failArm[h.ID] > 0 {
				e.failArm[h.ID]--
				wantErr = "writeerr"
			} else if h.Op != "indicate" {
				e.tx[h.ID] = &mtx{inst: instNo, id: h.ID, deadline: now + e.rtoCur, raw: snapshot, rto: e.rtoCur, isDo: in.isDo}
				in.started = true
				if len(e.tx) > e.st.maxInFlight {
					e.st.maxInFlight = len(e.tx)
				}
			}
		}
		// real
		var err error
		switch h.Op {
		case "start":
			err = e.w.Client.Start(m, e.handlerFor(instNo))
		case "indicate":
			err = e.w.Client.Indicate(m)
		case "do":
			in.doDone = make(chan error, 1)
			before, _ := e.w.Conn.Snapshot()
			hf := e.handlerFor(instNo)
			go func() { in.doDone <- e.w.Client.Do(m, func(ev stun.Event) { hf(ev) }) }()
			// wait until Do's Start part is over: it wrote (and will now wait for its callback), or Do returned
			deadline := time.Now().Add(30 * time.Second)
		waitDo:
			for {
				select {
				case err = <-in.doDone:
					in.doDone <- err

					break waitDo
				default:
				}
				if wantErr == "nil" {
					if wr, _ := e.w.Conn.Snapshot(); len(wr) > len(before) {
						break waitDo
					}
				}
				if time.Now().After(deadline) {
					return fmt.Errorf("%s: Do neither wrote nor returned within 30 s", name)
				}
				time.Sleep(20 * time.Microsecond)
			}
		}
		e.refuseMu.Lock()
		refused := e.refuseErr
		e.refuseErr = nil
		e.refuseMu.Unlock()
		got := "nil"
		switch {
		case err == nil:
		case refused != nil && err == refused: //nolint:errorlint // the very value the agent returned
			got = "refused"
		case errors.Is(err, stun.ErrClientClosed):
			got = "closed"
		case errors.Is(err, stun.ErrTransactionExists):
			got = "exists"
		case isWriteErr(err):
			got = "writeerr"
		default:
			got = "other:" + err.Error()
		}
		if h.Op == "do" && wantErr == "nil" {
			// Do has not returned yet (it waits for its callback); its Start part succeeded
			got = "nil"
		}
		if got != wantErr {
			return fmt.Errorf("%s returned %s (%v), specification says %s", name, got, err, wantErr)
		}
	case "mutate":
		// the caller reuses the buffers of every message it passed to Start
		for _, in := range e.insts {
			if in.msg != nil {
				for k := range in.msg.Raw {
					in.msg.Raw[k] ^= 0xFF
				}
				in.msg.Reset()
				in.msg.WriteHeader()
				in.msg.Add(0x7F7F, []byte("reused by the caller"))
			}
		}
		for _, t := range e.tx {
			if t.k < e.n {
				e.st.reuseBetween = true
			}
		}
	case "respond", "unknown", "garbage":
		if e.closed {
			return nil // the harness does not deliver after Close returned
		}
		var d []byte
		switch h.Op {
		case "respond":
			e.serial++
			size := h.Size
			if size > 1024 {
				size = 1024
			}
			d = response(h.ID, e.serial, size)
		case "unknown":
			e.serial++
			d = response(60000+h.ID%5000, e.serial, 0)
		default:
			d = unhex(h.Junk)
			if len(d) > 1024 {
				d = d[:1024]
			}
		}
		if r, ok := ref.Parse(d); ok {
			hit := false
			nestedFor := -1
			for id, t := range e.tx {
				if txID(id) == r.TID {
					ex.events = append(ex.events, hev{Inst: t.inst, Kind: "response", Raw: d})
					e.insts[t.inst].expected++
					nestedFor = t.inst
					if t.k > 0 {
						e.st.nonFirstResponse = true
					}
					for oid, o := range e.tx {
						if oid != id && o.inst < t.inst {
							e.st.outOfOrder = true
						}
					}
					delete(e.tx, id)
					hit = true

					break
				}
			}
			if nestedFor >= 0 {
				e.modelNested(nestedFor, ex, now)
			}
			if !hit {
				e.st.nonFirstResponse = e.st.nonFirstResponse || h.Op == "respond"
				if e.c.Fallback {
					ex.events = append(ex.events, hev{Inst: -1, Kind: "response", Raw: d})
				}
			}
		}
		if !e.w.Conn.Deliver(d) {
			return fmt.Errorf("%s: the reader did not consume the datagram and return to Read within 30 s", name)
		}
	case "readerr":
		// a transient error from the connection's Read (not a close): nothing may happen to any
		// transaction, and the client must go on receiving
		if e.closed {
			return nil
		}
		if !e.w.Conn.ReadError(30 * time.Second) {
			return fmt.Errorf("%s: after a transient Read error the reader did not return to Read within 30 s although the client is not closed", name)
		}
	case "fail":
		e.failArm[h.ID]++
		e.w.Conn.FailWritesFor(txID(h.ID), 1)
	case "advance":
		// time passes without a collector tick (the collector's rate is not the clock's resolution):
		// what is started next takes its deadlines from the clock as it is then, not from the last tick
		e.w.Clock.Set(now + time.Duration(h.RTO))
	case "setrto":
		e.rtoCur = time.Duration(h.RTO)
		e.w.Client.SetRTO(e.rtoCur)
		if len(e.tx) > 0 {
			e.st.setRTOBetween = true
		}
	case "tick":
		if e.closed {
			return nil // the collector is closed with the client
		}
		lo, hi, any := e.earliest()
		target := now + e.rtoCur
		if any {
			switch h.At {
			case "before":
				target = lo - 1
			case "at":
				target = lo
			case "after":
				target = lo + 1
			default:
				target = hi + 10*e.rtoCur + 1
			}
		}
		if target < now {
			target = now
		}
		// The timing clauses of C11 are lower bounds ("repeated only once the clock has passed ...",
		// "timeout only after ...", "at most n+1 times"), so this step is checked by observation: the
		// client MAY act on a transaction whose deadline has passed and MUST NOT act on any other.
		due := map[int]*mtx{}
		for id, t := range e.tx {
			if t.deadline == target {
				e.st.collectAtDeadline = true
			}
			if t.deadline < target {
				due[id] = t
			}
			e.prepareNested(t.inst)
		}
		e.w.Tick(target)

		return e.observeTick(name, target, due)
	case "close":
		wantErr := "nil"
		if e.closed {
			wantErr = "closed"
		} else {
			e.closed = true
			for id, t := range e.tx {
				ex.events = append(ex.events, hev{Inst: t.inst, Kind: "closed"})
				e.insts[t.inst].expected++
				e.st.nonFirstResponse = true
				e.st.closeInFlight = true
				delete(e.tx, id)
				// a handler that reacts to the closed event by starting again gets ErrClientClosed
				e.modelNested(t.inst, ex, now)
			}
		}
		err := e.closeClient()
		got := "nil"
		var ce stun.CloseErr
		switch {
		case errors.Is(err, stun.ErrClientClosed):
			got = "closed"
		case errors.As(err, &ce):
			got = fmt.Sprintf("closeerr(agent=%v,conn=%v)", ce.AgentErr == e.errAgent, ce.ConnectionErr == e.errConn) //nolint:errorlint
		case err != nil:
			got = "other:" + err.Error()
		}
		if wantErr == "nil" && (e.c.AgentCloseErr || (e.c.ConnCloseErr && !e.c.NoConnClose)) {
			wantErr = fmt.Sprintf("closeerr(agent=%v,conn=%v)", e.c.AgentCloseErr, e.c.ConnCloseErr && !e.c.NoConnClose)
			if ce.AgentErr != nil && !e.c.AgentCloseErr || ce.ConnectionErr != nil && (!e.c.ConnCloseErr || e.c.NoConnClose) {
				got += " with an error that was not injected"
			}
		}
		if got != wantErr {
			return fmt.Errorf("%s returned %s, specification says %s", name, got, wantErr)
		}
		if _, closes := e.w.Conn.Snapshot(); (e.c.NoConnClose && closes != 0) || (!e.c.NoConnClose && closes != 1) {
			return fmt.Errorf("%s: connection closed %d times (WithNoConnClose=%v)", name, closes, e.c.NoConnClose)
		}
	default:
		return fmt.Errorf("harness: unknown op %q", h.Op)
	}

	return e.compare(name, ex)
}

// idOfDatagram recovers the transaction index from a datagram written by the client.
func idOfDatagram(b []byte) int {
	if len(b) < 20 {
		return -1
	}
	i := int(b[18])<<8 | int(b[19])
	var tid [12]byte
	copy(tid[:], b[8:20])
	if txID(i) != tid {
		return -1
	}

	return i
}

// observeTick validates what the client did during one collector tick against the bounds of the
// specification and brings the model up to date with it.
func (e *engine) observeTick(step string, target time.Duration, due map[int]*mtx) error {
	events, writes := e.takeEvents(), e.takeWrites()
	ex := newExpect()
	type item struct {
		stamp int64
		ev    *hev
		wr    *sim.WriteRec
	}
	var log []item
	for i := range events {
		log = append(log, item{stamp: events[i].Stamp, ev: &events[i]})
	}
	for i := range writes {
		log = append(log, item{stamp: writes[i].Seq, wr: &writes[i]})
	}
	sort.Slice(log, func(i, j int) bool { return log[i].stamp < log[j].stamp })
	retransmitted := map[*mtx]bool{}
	failed := map[*mtx]bool{}
	acted := map[*mtx]bool{}
	for _, it := range log {
		switch {
		case it.wr != nil:
			w := it.wr
			if ex.writes[string(w.Bytes)] > 0 { // first transmission of a Start issued from a handler
				ex.writes[string(w.Bytes)]--

				continue
			}
			id := idOfDatagram(w.Bytes)
			t := e.tx[id]
			switch {
			case t == nil:
				return fmt.Errorf("%s: datagram %s written for a transaction that is not in flight (after its terminating event, or never started)", step, descB(w.Bytes))
			case !bytes.Equal(w.Bytes, t.raw):
				return fmt.Errorf("%s: retransmission %s differs from the message as it was at Start %s", step, descB(w.Bytes), descB(t.raw))
			case due[id] != t:
				return fmt.Errorf("%s: transaction %d (id index %d) retransmitted at %v although transmission %d may be repeated only after %v", step, t.inst, id, target, t.k, t.deadline)
			case retransmitted[t]:
				return fmt.Errorf("%s: transaction %d retransmitted twice in one tick", step, t.inst)
			case t.k >= e.n:
				return fmt.Errorf("%s: transaction %d written %d times, limit is %d retransmissions", step, t.inst, t.k+2, e.n)
			}
			retransmitted[t], acted[t] = true, true
			t.k++
			t.deadline = target + time.Duration(t.k+1)*t.rto
			e.st.retransmissions++
			if len(t.raw) > 1500 {
				e.st.bigRetransmit = true
			}
			if w.Err != nil {
				failed[t] = true
				if e.failArm[id] > 0 {
					e.failArm[id]--
				}
			}
		default:
			ev := it.ev
			if ev.Inst < 0 {
				return fmt.Errorf("%s: fallback handler invoked with %s during a collector tick", step, ev.Kind)
			}
			in := e.insts[ev.Inst]
			t := e.tx[in.id]
			if t == nil || t.inst != ev.Inst {
				return fmt.Errorf("%s: handler of transaction %d invoked with %s although it is not in flight", step, ev.Inst, ev.Kind)
			}
			switch ev.Kind {
			case "timeout":
				switch {
				case due[in.id] != t || retransmitted[t]:
					return fmt.Errorf("%s: transaction %d timed out at %v, before the deadline %v of its transmission %d", step, ev.Inst, target, t.deadline, t.k)
				case t.k < e.n:
					return fmt.Errorf("%s: transaction %d timed out after %d of %d retransmissions", step, ev.Inst, t.k, e.n)
				}
			case "writeerr":
				if !failed[t] {
					return fmt.Errorf("%s: handler of transaction %d received a write error although no write failed", step, ev.Inst)
				}
				delete(failed, t)
			default:
				return fmt.Errorf("%s: handler of transaction %d invoked with %s during a collector tick", step, ev.Inst, ev.Kind)
			}
			if ev.TID != txID(in.id) {
				return fmt.Errorf("%s: handler of transaction %d received an event for id %x", step, ev.Inst, ev.TID)
			}
			acted[t] = true
			in.expected++
			e.st.nonFirstResponse = true
			delete(e.tx, in.id)
			e.modelNested(ev.Inst, ex, target)
		}
	}
	for t := range failed {
		return fmt.Errorf("%s: the retransmission of transaction %d failed but its handler was not told", step, t.inst)
	}
	for k, n := range ex.writes {
		if n > 0 {
			return fmt.Errorf("%s: the Start issued from a handler did not write %s", step, descB([]byte(k)))
		}
	}
	for _, t := range due {
		if !acted[t] {
			e.st.lazy++ // allowed by the stated bounds; counted in the evidence
		}
	}

	if err := e.checkNested(step); err != nil {
		return err
	}

	return e.checkDoPending(step)
}

// checkDoPending: a Do whose transaction is still in flight must still be blocked.
func (e *engine) checkDoPending(step string) error {
	for _, t := range e.tx {
		in := e.insts[t.inst]
		if !in.isDo || in.doDone == nil {
			continue
		}
		select {
		case err := <-in.doDone:
			in.doDone <- err

			return fmt.Errorf("%s: Do of transaction %d returned (%v) although its callback has not been invoked yet", step, t.inst, err)
		default:
		}
	}

	return nil
}

// checkNested compares the results of Starts issued from inside handlers with the model.
func (e *engine) checkNested(step string) error {
	e.mu.Lock()
	defer e.mu.Unlock()
	for i, in := range e.insts {
		if in.reInst > 0 && in.reWant != "" {
			got, want := in.reGot, in.reWant
			in.reWant = ""
			if got != want {
				return fmt.Errorf("%s: Start issued from inside the handler of transaction %d returned %q, specification says %s (the completed transaction has left the table before its handler runs)", step, i, got, want)
			}
		}
	}

	return nil
}

// closeClient calls Close, unblocking the reader when the connection is not
// closed by the client (precondition of WithNoConnClose).
func (e *engine) closeClient() error {
	done := make(chan error, 1)
	go func() { done <- e.w.Client.Close() }()
	deadline := time.After(30 * time.Second)
	for {
		select {
		case err := <-done:
			return err
		case <-deadline:
			return fmt.Errorf("Close did not return within 30 s although Read kept returning")
		case <-time.After(200 * time.Microsecond):
			if e.c.NoConnClose {
				e.w.Conn.Unblock()
			}
		}
	}
}

// finish closes the client if needed and checks the end-of-history invariants.
func (e *engine) finish() error {
	if !e.closed {
		if err := e.step(len(e.c.Ops), hop{Op: "close"}); err != nil {
			return err
		}
	}
	e.mu.Lock()
	counts := map[int]int{}
	for _, h := range e.events {
		if h.Inst >= 0 {
			counts[h.Inst]++
		}
	}
	e.mu.Unlock()
	for i, in := range e.insts {
		want := 0
		if in.started {
			want = 1
		}
		if counts[i] != want {
			return fmt.Errorf("transaction %d (id index %d, Start ok=%v): handler invoked %d times over the whole history, want exactly %d", i, in.id, in.started, counts[i], want)
		}
		if in.isDo && in.doDone != nil {
			select {
			case err := <-in.doDone:
				if in.started && err != nil {
					return fmt.Errorf("transaction %d: Do returned %v after its callback ran", i, err)
				}
			case <-time.After(30 * time.Second):
				return fmt.Errorf("transaction %d: Do did not return within 30 s although its transaction is complete (handler invocations: %d)", i, counts[i])
			}
		}
	}
	// nothing may be written after the end
	if wr := e.takeWrites(); len(wr) != 0 {
		return fmt.Errorf("%d datagrams written after the history ended", len(wr))
	}

	return nil
}

// runHistory is the whole oracle: every step and the end-of-history invariants.
func runHistory(c clientCase) (*engine, error) {
	e, err := newEngine(c)
	if err != nil {
		return nil, fmt.Errorf("harness: NewClient: %w", err)
	}
	defer e.w.Release()
	for i, h := range c.Ops {
		if err := e.step(i, h); err != nil {
			_ = e.closeClientQuietly()

			return e, err
		}
	}
	if err := e.finish(); err != nil {
		_ = e.closeClientQuietly()

		return e, err
	}

	return e, nil
}

func (e *engine) closeClientQuietly() error {
	done := make(chan struct{})
	go func() {
		defer close(done)
		_ = e.closeClient()
	}()
	select {
	case <-done:
	case <-time.After(5 * time.Second):
	}

	return nil
}

func unhex(s string) []byte {
	out := make([]byte, len(s)/2)
	for i := range out {
		fmt.Sscanf(s[2*i:2*i+2], "%02x", &out[i]) //nolint:errcheck
	}

	return out
}

var _ = bytes.Equal
