package client

import (
	"bytes"
	"encoding/json"
	"errors"
	"fmt"
	"runtime"
	"strconv"
	"strings"
	"sync"
	"sync/atomic"
	"testing"
	"time"

	"github.com/pion/stun/v3"
	"github.com/pion/stun/v3/verifharness/evid"
	"github.com/pion/stun/v3/verifharness/pbt"
	"github.com/pion/stun/v3/verifharness/sim"
)

// Systematic interleaving exploration (DESIGN appendix C) without source hooks: two client
// operations run in their own goroutines and park at every control point where the client
// calls out between its critical sections (delegating agent, connection Write/Close, clock).
// A scheduler releases exactly one parked goroutine at a time; a depth-first search over the
// two-way decisions enumerates the merges of the two gate sequences. A goroutine that neither
// parks nor finishes within a grace period is assumed to be blocked on an internal lock held by
// the parked one, which is then released - this only changes which schedule is explored.

func goid() int64 {
	var buf [64]byte
	n := runtime.Stack(buf[:], false)
	f := bytes.Fields(buf[:n])
	id, _ := strconv.ParseInt(string(f[1]), 10, 64)

	return id
}

type gateSched struct {
	mu      sync.Mutex
	cond    *sync.Cond
	enabled bool
	roles   map[int64]string
	parked  map[string]chan struct{}
	done    map[string]bool
	trace   []string
}

func newGateSched() *gateSched {
	s := &gateSched{roles: map[int64]string{}, parked: map[string]chan struct{}{}, done: map[string]bool{}}
	s.cond = sync.NewCond(&s.mu)

	return s
}

func (s *gateSched) register(role string) {
	s.mu.Lock()
	s.roles[goid()] = role
	s.mu.Unlock()
}

func (s *gateSched) finish(role string) {
	s.mu.Lock()
	s.done[role] = true
	s.cond.Broadcast()
	s.mu.Unlock()
}

// gate parks the calling goroutine if it is a controlled role.
func (s *gateSched) gate(point string) {
	s.mu.Lock()
	role := s.roles[goid()]
	if !s.enabled || role == "" || s.done[role] {
		s.mu.Unlock()

		return
	}
	ch := make(chan struct{})
	s.parked[role] = ch
	s.trace = append(s.trace, role+":"+point)
	s.cond.Broadcast()
	s.mu.Unlock()
	<-ch
}

// disable lets every parked goroutine go and turns all gates into pass-throughs.
func (s *gateSched) disable() {
	s.mu.Lock()
	s.enabled = false
	for r, ch := range s.parked {
		close(ch)
		delete(s.parked, r)
	}
	s.mu.Unlock()
}

const gateGrace = 3 * time.Millisecond

// run drives roles A and B; forced is the prefix of two-way decisions to take (0 = A, 1 = B).
// It returns the decisions actually taken at two-way points.
func (s *gateSched) run(forced []int, lateB func(), lateAfter int) (taken []int) {
	overall := time.Now().Add(20 * time.Second)
	releasedA := 0
	if lateB != nil && lateAfter == 0 {
		lateB()
		lateB = nil
	}
	defer func() {
		if lateB != nil { // A finished before the launch point: B still has to run
			lateB()
		}
	}()
	for time.Now().Before(overall) {
		s.mu.Lock()
		// wait until something is parked or both roles are done
		for len(s.parked) == 0 && !(s.done["A"] && s.done["B"]) {
			if !waitCondTimeout(s.cond, 50*time.Millisecond) && time.Now().After(overall) {
				break
			}
			if len(s.parked) == 0 && lateB != nil && !s.done["A"] {
				// A neither parks nor finishes (blocked, e.g. Close waiting for the reader under
				// WithNoConnClose) before B's launch point: B enters now
				f := lateB
				lateB = nil
				s.mu.Unlock()
				f()
				s.mu.Lock()

				continue
			}
			// a role that runs without ever reaching a gate again (e.g. Do waiting for its callback)
			// ends the exploration once the other one is done
			if len(s.parked) == 0 && (s.done["A"] || s.done["B"]) {
				s.mu.Unlock()
				time.Sleep(gateGrace)
				s.mu.Lock()
				if len(s.parked) == 0 {
					s.mu.Unlock()

					return taken
				}
			}
		}
		if s.done["A"] && s.done["B"] && len(s.parked) == 0 {
			s.mu.Unlock()

			return taken
		}
		// give a running role the chance to reach its next gate (or finish)
		for _, r := range []string{"A", "B"} {
			deadline := time.Now().Add(gateGrace)
			for s.parked[r] == nil && !s.done[r] && time.Now().Before(deadline) {
				waitCondTimeout(s.cond, gateGrace)
			}
		}
		var cands []string
		for _, r := range []string{"A", "B"} {
			if s.parked[r] != nil {
				cands = append(cands, r)
			}
		}
		if len(cands) == 0 {
			s.mu.Unlock()

			continue
		}
		pick := cands[0]
		if len(cands) == 2 {
			c := 0
			if len(taken) < len(forced) {
				c = forced[len(taken)]
			}
			taken = append(taken, c)
			pick = cands[c]
		}
		ch := s.parked[pick]
		delete(s.parked, pick)
		s.mu.Unlock()
		close(ch)
		if pick == "A" {
			releasedA++
			if lateB != nil && releasedA >= lateAfter {
				// B enters only now: its first, gate-less stretch runs after A's first lateAfter segments
				time.Sleep(gateGrace) // let A reach its next gate (or block)
				lateB()
				lateB = nil
			}
		}
	}
	return taken
}

func waitCondTimeout(c *sync.Cond, d time.Duration) bool {
	// The wake-up takes the lock first: the caller holds it until Wait has put itself on the wait list, so
	// the broadcast cannot be lost when the timer fires before Wait has started (a 3 ms timer on a busy
	// machine did exactly that and parked the scheduler for good).
	t := time.AfterFunc(d, func() {
		c.L.Lock()
		c.Broadcast()
		c.L.Unlock()
	})
	c.Wait()

	return t.Stop()
}

// ---- scenarios ---------------------------------------------------------------------

type exploreCase struct {
	State       string `json:"state"` // empty | inflight | expired | lastattempt | expired-failwrite
	A           string `json:"a"`     // tick close start do startsame indicate
	B           string `json:"b"`     // deliver close tick start
	NoConnClose bool   `json:"no_conn_close,omitempty"`
	Fallback    bool   `json:"fallback,omitempty"`
	Schedule    []int  `json:"schedule"`
	LateB       int    `json:"late_b,omitempty"` // B is launched only after A has been released from this many gates
	// NoWaitColl: the collector's Close does not wait for a tick in progress (like the repository's own test
	// collectors), so Close can run to completion between any two steps of a retransmission. Exactly-once (C10)
	// must survive that; "no handler after Close returned" (C15) presupposes a waiting collector and is not asserted.
	NoWaitColl  bool `json:"no_wait_collector,omitempty"`
	NoAftermath bool `json:"no_aftermath,omitempty"`
	// Delivery (C12): assert that a response arriving while its transaction is in flight reaches that
	// transaction's handler
	Delivery bool `json:"delivery,omitempty"`
	// Renest: the handler of transaction 0 starts a new transaction with the same id when it receives the
	// response (the id is free again at that moment) - while the other goroutine may still be busy with the
	// previous transaction of that id
	Renest bool `json:"renest,omitempty"`
	// RenestAfter: the same, but from the reader goroutine right after the handler has returned, when the
	// completed transaction's pooled object has been released (with OneP the next Start gets that very object)
	RenestAfter bool `json:"renest_after,omitempty"`
	OneP        bool `json:"one_p,omitempty"`
}

type exTx struct {
	kind  atomic.Value // classification of the event the handler received
	id    int
	err   error
	isDo  bool
	calls atomic.Int32
	seq   atomic.Int64
	ret   atomic.Bool
}

// runExplore executes one schedule; it returns the decisions taken and a violation if any.
func runExplore(c exploreCase) (taken []int, trace []string, err error) {
	if c.OneP {
		defer runtime.GOMAXPROCS(runtime.GOMAXPROCS(1))
	}
	noRetrans := c.State == "lastattempt"
	o := sim.Options{RTO: 100 * time.Millisecond, NoRetransmit: noRetrans, NoConnClose: c.NoConnClose}
	var fallbackCalls, fallbackResp0 atomic.Int32
	if c.Fallback {
		o.Fallback = func(e stun.Event) {
			fallbackCalls.Add(1)
			if e.Error == nil && e.TransactionID == txID(0) {
				fallbackResp0.Add(1)
			}
		}
	}
	w, werr := sim.NewWorld(o)
	if werr != nil {
		return nil, nil, werr
	}
	defer w.Release()
	w.Coll.NoWait = c.NoWaitColl
	s := newGateSched()
	var delivering atomic.Bool
	var registerB sync.Once
	w.Agent.Before = func(op string, _ [12]byte) {
		if op == "process" && delivering.Load() {
			// the reader goroutine becomes role B when it wakes up with the explored datagram
			registerB.Do(func() { s.register("B") })
		}
		s.gate("agent." + op)
	}
	w.Agent.After = func(op string, _ [12]byte, _ error) { s.gate("agent." + op + ".ret") }
	w.Conn.OnWrite = func([]byte) { s.gate("conn.write") }
	w.Conn.OnClose = func() { s.gate("conn.close") }
	w.Clock.OnNow = func() { s.gate("clock.now") }
	w.Coll.OnClose = func() { s.gate("collector.close") }
	var readerDone atomic.Bool
	var restartAfter func()
	w.Conn.OnRead = func() {
		// the reader goroutine is a controlled role only while it processes the explored datagram
		if delivering.Load() && !readerDone.Load() {
			s.mu.Lock()
			_, known := s.roles[goid()]
			s.mu.Unlock()
			if known {
				readerDone.Store(true)
				if c.RenestAfter && restartAfter != nil {
					// the id is used again right after the response has been handled (the completed
					// transaction's object is back in the pool by now), still as part of role B
					restartAfter()
				}
				s.finish("B")
			}
		}
	}
	var txs []*exTx
	var txMu sync.Mutex
	newTx := func(id int, isDo bool) *exTx {
		t := &exTx{id: id, isDo: isDo}
		txMu.Lock()
		txs = append(txs, t)
		txMu.Unlock()

		return t
	}
	var start func(t *exTx)
	var renested atomic.Bool
	start = func(t *exTx) {
		h := func(e stun.Event) {
			t.kind.Store(classifyEvent(e))
			t.calls.Add(1)
			t.seq.Store(w.Seq.Add(1))
			if c.Renest && t.id == 0 && e.Error == nil && renested.CompareAndSwap(false, true) {
				// the id is used again as soon as its transaction has ended: from inside the handler
				nt := newTx(0, false)
				start(nt)
			}
		}
		if t.isDo {
			t.err = w.Client.Do(request(t.id, 28), h)
		} else {
			t.err = w.Client.Start(request(t.id, 28), h)
		}
		t.ret.Store(true)
	}
	restartAfter = func() {
		txMu.Lock()
		first := txs[0]
		txMu.Unlock()
		if first.id == 0 && first.calls.Load() > 0 {
			nt := newTx(0, false)
			start(nt)
		}
	}
	// ---- pre-state, gates disabled
	if c.State != "empty" {
		t0 := newTx(0, false)
		start(t0)
		if t0.err != nil {
			return nil, nil, fmt.Errorf("harness: pre-state Start failed: %w", t0.err)
		}
		switch c.State {
		case "expired", "lastattempt", "expired-failwrite":
			w.Clock.Set(150 * time.Millisecond)
			if c.State == "expired-failwrite" {
				w.Conn.FailWritesFor(txID(0), 1)
			}
		}
	}
	var closeSeq atomic.Int64
	var closeOK, closeClosed atomic.Int32
	doClose := func() {
		e := w.Client.Close()
		if errors.Is(e, stun.ErrClientClosed) {
			closeClosed.Add(1)
		} else {
			closeOK.Add(1)
			closeSeq.Store(w.Seq.Add(1))
		}
	}
	op := func(role, name string) func() {
		switch name {
		case "tick":
			return func() { w.Tick(w.Clock.Elapsed() + 10*time.Millisecond) }
		case "close":
			return doClose
		case "start":
			t := newTx(1+len(role), false)

			return func() { start(t) }
		case "do":
			t := newTx(3+len(role), true)

			return func() { start(t) }
		case "startsame":
			t := newTx(0, false)

			return func() { start(t) }
		case "indicate":
			return func() { _ = w.Client.Indicate(request(9, 20)) }
		}

		return nil
	}
	var crashed atomic.Value
	var wg sync.WaitGroup
	launch := func(role string, f func()) {
		wg.Add(1)
		ready := make(chan struct{})
		go func() {
			defer wg.Done()
			defer s.finish(role)
			defer func() {
				if r := recover(); r != nil {
					buf := make([]byte, 4096)
					n := runtime.Stack(buf, false)
					crashed.CompareAndSwap(nil, fmt.Sprintf("panic in %s: %v\n%s", role, r, buf[:n]))
				}
			}()
			s.register(role)
			close(ready)
			f()
		}()
		<-ready
	}
	s.mu.Lock()
	s.enabled = true
	s.mu.Unlock()
	fa := op("A", c.A)
	if fa == nil {
		return nil, nil, fmt.Errorf("harness: unknown op %q", c.A)
	}
	var fb func()
	if c.B != "deliver" {
		if fb = op("B", c.B); fb == nil {
			return nil, nil, fmt.Errorf("harness: unknown op %q", c.B)
		}
	}
	launch("A", fa)
	launchB := func() {
		if c.B == "deliver" {
			// the reader goroutine becomes role B when it wakes up with the datagram
			delivering.Store(true)
			w.Conn.Enqueue(response(0, 1, 0))

			return
		}
		launch("B", fb)
	}
	taken = s.run(c.Schedule, launchB, c.LateB)
	s.disable()
	// what every handler had seen when the explored window ended
	type seen struct {
		n    int
		kind string
	}
	txMu.Lock()
	windowTxs := append([]*exTx(nil), txs...)
	txMu.Unlock()
	window := make([]seen, len(windowTxs))
	if c.A != "close" && c.B != "close" {
		// give A and B a moment to return (a Do may legitimately still be waiting for its callback)
		for deadline := time.Now().Add(50 * time.Millisecond); time.Now().Before(deadline); {
			s.mu.Lock()
			both := s.done["A"] && s.done["B"]
			s.mu.Unlock()
			if both {
				break
			}
			time.Sleep(100 * time.Microsecond)
		}
	}
	for i, t := range windowTxs {
		k, _ := t.kind.Load().(string)
		window[i] = seen{int(t.calls.Load()), k}
	}
	// ---- aftermath (client still open): the id of transaction 0 is used again once that transaction has
	// ended, and the clock runs past every deadline. Whatever the interleaving left behind (a stale
	// registration in the agent or in the client) shows up here: a Start that fails must stay silent.
	if c.A != "close" && c.B != "close" && !c.NoAftermath {
		s.mu.Lock()
		both := s.done["A"] && s.done["B"]
		s.mu.Unlock()
		after := make(chan struct{})
		go func() {
			defer close(after)
			if both && len(windowTxs) > 0 && windowTxs[0].id == 0 && windowTxs[0].calls.Load() > 0 {
				t := newTx(0, false)
				start(t)
			}
			for i := 1; i <= 12 && both; i++ {
				w.Tick(w.Clock.Elapsed() + time.Second)
			}
		}()
		select {
		case <-after:
		case <-time.After(30 * time.Second):
			buf := make([]byte, 1<<18)
			n := runtime.Stack(buf, true)

			return taken, trace, fmt.Errorf("deadlock: after %s || %s in state %s (schedule %v, gates %v) a further Start / collector tick did not return within 30 s\n%s", c.A, c.B, c.State, taken, trace, buf[:n])
		}
	}
	// ---- finalisation: close (if nobody did) and wait for everything
	fin := make(chan struct{})
	go func() {
		defer close(fin)
		if closeOK.Load() == 0 && c.A != "close" && c.B != "close" {
			done := make(chan struct{})
			go func() { defer close(done); doClose() }()
			for {
				select {
				case <-done:
					goto closed
				case <-time.After(200 * time.Microsecond):
					if c.NoConnClose {
						w.Conn.Unblock()
					}
				}
			}
		}
	closed:
		wgDone := make(chan struct{})
		go func() { wg.Wait(); close(wgDone) }()
		for {
			select {
			case <-wgDone:
				return
			case <-time.After(200 * time.Microsecond):
				if c.NoConnClose {
					w.Conn.Unblock()
				}
			}
		}
	}()
	s.mu.Lock()
	trace = append([]string(nil), s.trace...)
	s.mu.Unlock()
	select {
	case <-fin:
	case <-time.After(30 * time.Second):
		buf := make([]byte, 1<<18)
		n := runtime.Stack(buf, true)

		return taken, trace, fmt.Errorf("deadlock: %s || %s in state %s did not finish within 30 s after schedule %v (gate trace %v)\n%s", c.A, c.B, c.State, taken, trace, buf[:n])
	}
	if p, _ := crashed.Load().(string); p != "" {
		return taken, trace, fmt.Errorf("%s", p)
	}
	// ---- invariants (schedule independent)
	if closeOK.Load() != 1 {
		return taken, trace, fmt.Errorf("%d Close calls succeeded (%d returned ErrClientClosed)", closeOK.Load(), closeClosed.Load())
	}
	if _, closes := w.Conn.Snapshot(); (c.NoConnClose && closes != 0) || (!c.NoConnClose && closes != 1) {
		return taken, trace, fmt.Errorf("connection closed %d times (WithNoConnClose=%v)", closes, c.NoConnClose)
	}
	cs := closeSeq.Load()
	for _, t := range txs {
		n := int(t.calls.Load())
		switch {
		case !t.ret.Load():
			return taken, trace, fmt.Errorf("Start/Do of id %d never returned", t.id)
		case t.err == nil && n != 1:
			return taken, trace, fmt.Errorf("id %d (Do=%v): Start returned nil, handler ran %d times (want 1); schedule %v, gates %v", t.id, t.isDo, n, taken, trace)
		case t.err != nil && n != 0:
			return taken, trace, fmt.Errorf("id %d: Start returned %v but the handler ran %d times; schedule %v, gates %v", t.id, t.err, n, taken, trace)
		case n > 0 && t.seq.Load() > cs && !c.NoWaitColl:
			return taken, trace, fmt.Errorf("id %d: handler invoked after Close returned; schedule %v, gates %v", t.id, taken, trace)
		}
		k := ""
		if wi := indexOfTx(windowTxs, t); wi >= 0 {
			k = window[wi].kind
		}
		if k == "timeout" && !noRetrans {
			// at most one retransmission can have happened in the explored window: a timeout may be
			// reported only after the last of the 7 retransmissions (a transaction cut short by Close
			// gets a closed error)
			return taken, trace, fmt.Errorf("id %d: handler received a timeout although its retransmissions were not exhausted; schedule %v, gates %v", t.id, taken, trace)
		} else if strings.HasPrefix(k, "other:") {
			return taken, trace, fmt.Errorf("id %d: handler received %s; schedule %v, gates %v", t.id, k, taken, trace)
		}
	}
	// C12 inside the window: a response that arrives while its transaction is in flight reaches that
	// transaction's handler - whatever the collector is doing with the transaction at that moment. In
	// these states nothing else can end transaction 0 inside the window (no Close, no failing write, no
	// exhausted attempts), so its handler must have seen the response.
	if c.Delivery && c.B == "deliver" && (c.State == "inflight" || c.State == "expired") && c.A != "close" && c.A != "startsame" && len(windowTxs) > 0 {
		if window[0].kind != "response" {
			where := "was dropped"
			if fallbackResp0.Load() > 0 {
				where = "went to the fallback handler"
			}

			return taken, trace, fmt.Errorf("the response for transaction 0 arrived while the transaction was in flight (state %s, concurrent %s) but %s; its handler saw %d events (%q); schedule %v, gates %v",
				c.State, c.A, where, window[0].n, window[0].kind, taken, trace)
		}
	}
	if g := leakedGoroutines(); g != "" {
		return taken, trace, fmt.Errorf("goroutine left behind after Close:\n%s", g)
	}

	return taken, trace, nil
}

func indexOfTx(l []*exTx, t *exTx) int {
	for i, x := range l {
		if x == t {
			return i
		}
	}

	return -1
}

var (
	exploreStates = []string{"empty", "inflight", "expired", "lastattempt", "expired-failwrite"}
	exploreA      = []string{"tick", "close", "start", "do", "startsame", "indicate"}
	exploreB      = []string{"deliver", "close", "tick", "start"}
)

func exploreNotes(rec *evid.Rec) {
	rec.Note("interleaving_exploration", "pairs of client operations {collector tick, Close, Start, Do, Start of an in-flight id, Indicate} x {response delivery (reader goroutine), Close, tick, Start} in five pre-states "+
		"(no transaction / one in flight / deadline passed / last attempt / deadline passed and the retransmission write failing): both run in goroutines that park at every call-out of the client "+
		"(delegating agent, connection Write/Close, clock); a depth-first search over the two-way scheduling decisions enumerates the merges of the two gate sequences (bounded per pair); "+
		"schedule-independent invariants (exactly-once handlers, failed Start => never, no handler after Close, single successful Close, close count, no leak, no panic, 30 s deadlock watchdog) are asserted after each schedule")
}

// exploreAll runs the DFS over schedules for every (state, A, B); budget bounds the runs per pair.
func exploreAll(t *testing.T, rec *evid.Rec, prop string, budget int, only func(a, b string) bool) {
	t.Helper()
	shard, nshards := evid.Shard()
	idx := 0
	for _, st := range exploreStates {
		for _, a := range exploreA {
			for _, b := range exploreB {
				if st == "empty" && (b == "deliver" || a == "startsame") && !(a == "startsame" && b == "deliver") {
					// (empty, startsame, deliver): Start(id 0) with nothing in flight while a datagram carrying
					// id 0 arrives (a late duplicate of an earlier transaction that used the id)
					continue
				}
				if a == "tick" && b == "tick" {
					continue // one collector
				}
				if only != nil && !only(a, b) {
					continue
				}
				if a == "startsame" && b == "tick" {
					// Starting an id that is still in flight is a caller error (DESIGN D4). Sequentially it is
					// refused with ErrTransactionExists (C10 engine); while a retransmission of that id is in
					// progress the duplicate can slip in and is then lost - not asserted, two live
					// transactions never share an id.
					continue
				}
				for v := 0; v < 6; v++ {
					if v >= 3 && !(b == "deliver" && a == "tick" && st != "empty" && st != "lastattempt") {
						continue // id reuse from inside / right after the handler: response || collector tick
					}
					if v == 1 && !evid.Thorough() && a != "close" && b != "close" && prop != "C12" {
						continue // quick tier: the WithNoConnClose/fallback variant only where Close takes part
					}
					if v == 2 && (prop != "C10" || !((a == "tick" && b == "close") || (a == "close" && b == "tick"))) {
						continue // non-waiting collector: only tick || Close, only for exactly-once
					}
					idx++
					if idx%nshards != shard {
						continue
					}
					lates := []int{0, 1, 2, 3, 4}
					if !evid.Thorough() {
						lates = []int{0, 1, 2}
					}
					seen := map[string]bool{}
					runs := 0
					// B as one atomic step inserted after each of A's first gates: B is launched late and then
					// always preferred, so it runs to completion (or until it blocks on A) before A continues.
					ones := make([]int, 32)
					for i := range ones {
						ones[i] = 1
					}
					firstLate := 0
					if v >= 3 {
						// The agent's timeout event names the transaction by id only. If the id is used again
						// before the client has looked that event up, the event is applied to the successor -
						// inherent to the agent/client interface, not explored. The id is reused only once the
						// collector goroutine has passed its lookup (released from its first two gates:
						// agent.collect and the clock read in front of the lookup).
						firstLate = 2
					}
					for late := firstLate; late <= evid.Pick(8, 12); late++ {
						c := exploreCase{State: st, A: a, B: b, NoConnClose: v == 1, Fallback: v == 1, LateB: late, NoWaitColl: v == 2, Schedule: ones, Delivery: prop == "C12", Renest: v == 3, RenestAfter: v >= 4, OneP: v == 5}
						taken, trace, err := runExplore(c)
						runs++
						key := fmt.Sprint(trace)
						rec.Case("interleaving:"+a+"||"+b, evid.NewH().Str(st).Str(a).Str(b).I(v).Str(key).Sum(), !seen[key] && len(trace) > 1, func() any {
							return map[string]any{"case": c, "gates": trace}
						})
						seen[key] = true
						if err != nil {
							c.Schedule = taken
							pbt.Fail(t, rec, "explore", c, "%v", err)

							return
						}
					}
					if v >= 3 {
						for i := range lates {
							lates[i] += firstLate
						}
					}
					for _, late := range lates {
						base := exploreCase{State: st, A: a, B: b, NoConnClose: v == 1, Fallback: v == 1, LateB: late, NoWaitColl: v == 2, Delivery: prop == "C12", Renest: v == 3, RenestAfter: v >= 4, OneP: v == 5}
						// depth-first search over two-way decisions
						stack := [][]int{{}}
						lruns := 0
						for len(stack) > 0 && lruns < budget/len(lates)+1 {
							lruns++
							prefix := stack[len(stack)-1]
							stack = stack[:len(stack)-1]
							c := base
							c.Schedule = prefix
							taken, trace, err := runExplore(c)
							runs++
							key := fmt.Sprint(trace)
							rec.Case("interleaving:"+a+"||"+b, evid.NewH().Str(st).Str(a).Str(b).I(v).Str(key).Sum(), !seen[key] && len(taken) > 0, func() any {
								return map[string]any{"case": c, "gates": trace}
							})
							seen[key] = true
							if err != nil {
								c.Schedule = taken
								pbt.Fail(t, rec, "explore", c, "%v", err)

								return
							}
							// children: flip each decision after the forced prefix
							for i := len(prefix); i < len(taken); i++ {
								if taken[i] == 0 {
									child := append(append([]int(nil), taken[:i]...), 1)
									stack = append(stack, child)
								}
							}
						}
					}
					rec.Count("interleaving_runs", int64(runs))
					rec.Count("interleaving_distinct_gate_traces", int64(len(seen)))
				}
			}
		}
	}
	_ = prop
}

func TestC10_Interleavings(t *testing.T) {
	rec := evid.For("C10")
	c10Notes(rec)
	exploreNotes(rec)
	exploreAll(t, rec, "C10", evid.Pick(21, 600), nil)
}

// TestC15_Interleavings explores the pairs that involve Close.
func TestC15_Interleavings(t *testing.T) {
	rec := evid.For("C15")
	c15Notes(rec)
	exploreNotes(rec)
	exploreAll(t, rec, "C15", evid.Pick(21, 600), func(a, b string) bool { return a == "close" || b == "close" })
}

func replayExplore(t *testing.T, prop string) {
	t.Helper()
	rec := evid.For(prop)
	for _, path := range evid.ReplayFiles() {
		rp, err := evid.LoadReplay(path)
		if err != nil || rp.Property != prop || rp.Kind != "explore" {
			continue
		}
		var c exploreCase
		if err := json.Unmarshal(rp.Case, &c); err != nil {
			t.Fatalf("bad replay %s: %v", path, err)
		}
		rec.Count("replays_run", 1)
		for i := 0; i < 20; i++ {
			if _, _, err := runExplore(c); err != nil {
				rec.ReplayFailed(path, err.Error())
				t.Errorf("replay %s fails (run %d): %v", path, i, err)

				break
			}
		}
	}
}

// TestC12_Interleavings explores response delivery (reader goroutine) against every other operation:
// the response of an in-flight transaction must reach its handler whatever the other goroutine is doing.
func TestC12_Interleavings(t *testing.T) {
	rec := evid.For("C12")
	c12Notes(rec)
	exploreNotes(rec)
	exploreAll(t, rec, "C12", evid.Pick(21, 600), func(a, b string) bool { return b == "deliver" && a != "close" })
}

func TestC10_ReplayExplore(t *testing.T) { replayExplore(t, "C10") }
func TestC12_ReplayExplore(t *testing.T) { replayExplore(t, "C12") }
func TestC15_ReplayExplore(t *testing.T) { replayExplore(t, "C15") }
