package client

import (
	"testing"
	"time"

	"github.com/pion/stun/v3/verifharness/evid"
	"github.com/pion/stun/v3/verifharness/pbt"
	"pgregory.net/rapid"
)

func c12Notes(rec *evid.Rec) {
	rec.Note("rule", "worlds of 1..500 concurrently in-flight transactions (ids share an 11-byte pattern and neighbours differ in single bits), started with Start and Do mixed, answered in a random permutation with duplicates, "+
		"responses for unknown ids, indications and garbage interleaved, datagrams up to the client's 1024-byte read buffer each carrying a unique payload; several rounds on one client so that pooled transaction / wait-handler objects are recycled; "+
		"with and without a fallback handler. Oracle (lock-step engine of C10): every handler is a distinct closure bound to its transaction; each invocation must carry its own id and exactly the datagram delivered (copied inside the callback) "+
		"and be the first datagram with that id; unmatched decodable datagrams go to the fallback handler only (nowhere without one); undecodable datagrams cause no invocation and no state change. "+
		"Non-trivial = >= 2 transactions in flight when a response arrives out of start order, or a world with a recycled pooled object (second or later round); distinct by history.")
	rec.Note("assumptions", []string{"two live transactions never share an id (DESIGN D4); a Start with an id already in flight is rejected and its handler never runs"})
}

func genC12(rt *rapid.T, maxWidth int) clientCase {
	c := clientCase{RTO: int64(10 * time.Second), Fallback: rapid.Bool().Draw(rt, "fallback"), NoRetransmit: rapid.Bool().Draw(rt, "noRetransmit")}
	rounds := rapid.IntRange(1, 4).Draw(rt, "rounds")
	base := rapid.IntRange(0, 2000).Draw(rt, "idBase")
	for r := 0; r < rounds; r++ {
		width := rapid.SampledFrom([]int{1, 2, 3, 5, 8, 20, 60, maxWidth}).Draw(rt, "width")
		for i := 0; i < width; i++ {
			op := "start"
			if rapid.IntRange(0, 3).Draw(rt, "do") == 0 {
				op = "do"
			}
			c.Ops = append(c.Ops, hop{Op: op, ID: base + i, Size: rapid.SampledFrom([]int{20, 28, 64}).Draw(rt, "size")})
		}
		order := rapid.Permutation(seqInts(width)).Draw(rt, "order")
		for _, i := range order {
			switch rapid.IntRange(0, 9).Draw(rt, "noise") {
			case 0:
				c.Ops = append(c.Ops, hop{Op: "unknown", ID: i})
			case 1:
				c.Ops = append(c.Ops, hop{Op: "garbage", Junk: "00010000"})
			case 2:
				// duplicate: answered twice
				c.Ops = append(c.Ops, hop{Op: "respond", ID: base + i, Size: 1024})
			case 3:
				c.Ops = append(c.Ops, hop{Op: "garbage", Junk: "000100042112a4425a5a5a5a5a5a5a5a5a5a0000ffff"})
			}
			c.Ops = append(c.Ops, hop{Op: "respond", ID: base + i, Size: rapid.SampledFrom([]int{0, 100, 1024}).Draw(rt, "rsize")})
		}
	}

	return c
}

func seqInts(n int) []int {
	out := make([]int, n)
	for i := range out {
		out[i] = i
	}

	return out
}

func TestC12_Rapid(t *testing.T) {
	rec := evid.For("C12")
	c12Notes(rec)
	pbt.Check(t, rec, "history", evid.Pick(400, 8000), func(rt *rapid.T) (any, error) {
		c := genC12(rt, rapid.SampledFrom([]int{100, 250, 500}).Draw(rt, "maxWidth"))
		e, err := safeRun(c)
		nt := e != nil && (e.st.outOfOrder || e.st.maxInFlight >= 2)
		rec.Case("world", histSig(c), nt, func() any { return summarize(c) })
		if e != nil {
			rec.Count("transactions", int64(len(e.insts)))
			if e.st.maxInFlight > 0 {
				rec.Count("worlds_with_"+widthClass(e.st.maxInFlight)+"_in_flight", 1)
			}
		}

		return c, err
	})
}

func widthClass(n int) string {
	switch {
	case n >= 500:
		return "500"
	case n >= 100:
		return "100+"
	case n >= 10:
		return "10+"
	}

	return "<10"
}

// summarize keeps evidence samples small.
func summarize(c clientCase) any {
	if len(c.Ops) <= 40 {
		return c
	}
	s := c
	s.Ops = append(append([]hop(nil), c.Ops[:20]...), hop{Op: "...", Size: len(c.Ops) - 30})
	s.Ops = append(s.Ops, c.Ops[len(c.Ops)-10:]...)

	return s
}

func TestC12_Replay(t *testing.T) { replayHistories(t, "C12") }
