package client

import (
	"encoding/json"
	"fmt"
	"sync"
	"sync/atomic"
	"testing"
	"time"

	"github.com/pion/stun/v3"
	"github.com/pion/stun/v3/verifharness/sim"

	"github.com/pion/stun/v3/verifharness/evid"
	"github.com/pion/stun/v3/verifharness/pbt"
	"pgregory.net/rapid"
)

func c12Notes(rec *evid.Rec) {
	rec.Note("rule", "worlds of 1..500 concurrently in-flight transactions (ids share an 11-byte pattern and neighbours differ in single bits), started with Start and Do mixed, answered in a random permutation with duplicates, "+
		"responses for unknown ids, indications, garbage and transient Read errors (the connection stays open) interleaved, datagrams up to the client's 1024-byte read buffer each carrying a unique payload; several rounds on one client so that pooled transaction / wait-handler objects are recycled; "+
		"with and without a fallback handler. Oracle (lock-step engine of C10): every handler is a distinct closure bound to its transaction; each invocation must carry its own id and exactly the datagram delivered (copied inside the callback) "+
		"and be the first datagram with that id; unmatched decodable datagrams go to the fallback handler only (nowhere without one); undecodable datagrams cause no invocation and no state change. "+
		"Non-trivial = >= 2 transactions in flight when a response arrives out of start order, or a world with a recycled pooled object (second or later round); distinct by history.")
	rec.Note("assumptions", []string{"two live transactions never share an id (DESIGN D4); a Start with an id already in flight is rejected and its handler never runs"})
}

func genC12(rt *rapid.T, maxWidth int) clientCase {
	c := clientCase{RTO: int64(10 * time.Second), Fallback: rapid.Bool().Draw(rt, "fallback"), NoRetransmit: rapid.Bool().Draw(rt, "noRetransmit")}
	rounds := rapid.IntRange(1, 4).Draw(rt, "rounds")
	base := rapid.IntRange(0, 2000).Draw(rt, "idBase")
	for r := 0; r < rounds; r++ {
		width := rapid.SampledFrom([]int{1, 2, 3, 5, 8, 20, 60, maxWidth}).Draw(rt, "width")
		for i := 0; i < width; i++ {
			op := "start"
			if rapid.IntRange(0, 3).Draw(rt, "do") == 0 {
				op = "do"
			}
			c.Ops = append(c.Ops, hop{Op: op, ID: base + i, Size: rapid.SampledFrom([]int{20, 28, 64}).Draw(rt, "size")})
		}
		order := rapid.Permutation(seqInts(width)).Draw(rt, "order")
		for _, i := range order {
			switch rapid.IntRange(0, 9).Draw(rt, "noise") {
			case 0:
				c.Ops = append(c.Ops, hop{Op: "unknown", ID: i})
			case 1:
				c.Ops = append(c.Ops, hop{Op: "garbage", Junk: "00010000"})
			case 2:
				// duplicate: answered twice
				c.Ops = append(c.Ops, hop{Op: "respond", ID: base + i, Size: 1024})
			case 3:
				c.Ops = append(c.Ops, hop{Op: "garbage", Junk: "000100042112a4425a5a5a5a5a5a5a5a5a5a0000ffff"})
			case 4:
				c.Ops = append(c.Ops, hop{Op: "readerr"})
			}
			c.Ops = append(c.Ops, hop{Op: "respond", ID: base + i, Size: rapid.SampledFrom([]int{0, 20, 20, 100, 1024}).Draw(rt, "rsize")})
		}
	}

	return c
}

func seqInts(n int) []int {
	out := make([]int, n)
	for i := range out {
		out[i] = i
	}

	return out
}

func TestC12_Rapid(t *testing.T) {
	rec := evid.For("C12")
	c12Notes(rec)
	pbt.Check(t, rec, "history", evid.Pick(400, 8000), func(rt *rapid.T) (any, error) {
		c := genC12(rt, rapid.SampledFrom([]int{100, 250, 500}).Draw(rt, "maxWidth"))
		e, err := safeRun(c)
		nt := e != nil && (e.st.outOfOrder || e.st.maxInFlight >= 2)
		rec.Case("world", histSig(c), nt, func() any { return summarize(c) })
		if e != nil {
			rec.Count("transactions", int64(len(e.insts)))
			if e.st.maxInFlight > 0 {
				rec.Count("worlds_with_"+widthClass(e.st.maxInFlight)+"_in_flight", 1)
			}
		}

		return c, err
	})
}

func widthClass(n int) string {
	switch {
	case n >= 500:
		return "500"
	case n >= 100:
		return "100+"
	case n >= 10:
		return "10+"
	}

	return "<10"
}

// summarize keeps evidence samples small.
func summarize(c clientCase) any {
	if len(c.Ops) <= 40 {
		return c
	}
	s := c
	s.Ops = append(append([]hop(nil), c.Ops[:20]...), hop{Op: "...", Size: len(c.Ops) - 30})
	s.Ops = append(s.Ops, c.Ops[len(c.Ops)-10:]...)

	return s
}

func TestC12_Replay(t *testing.T) {
	replayHistories(t, "C12")
	rec := evid.For("C12")
	for _, path := range evid.ReplayFiles() {
		rp, err := evid.LoadReplay(path)
		if err != nil || rp.Property != "C12" || rp.Kind != "concurrent" {
			continue
		}
		var c c12Conc
		if err := json.Unmarshal(rp.Case, &c); err != nil {
			t.Fatalf("bad replay %s: %v", path, err)
		}
		rec.Count("replays_run", 1)
		for i := 0; i < 100; i++ {
			if err := runC12Conc(c); err != nil {
				rec.ReplayFailed(path, err.Error())
				t.Errorf("replay %s fails (run %d): %v", path, i, err)

				break
			}
		}
	}
}

// ---- concurrent variant: many goroutines, distinct responses, race detector ----

type c12Conc struct {
	Goroutines int  `json:"goroutines"`
	Each       int  `json:"each"`
	Fallback   bool `json:"fallback"`
	Noise      int  `json:"noise"` // every n-th written request is also answered for an unknown id
}

func runC12Conc(c c12Conc) error {
	var fallbackBad atomic.Value
	known := map[[12]byte]bool{}
	for g := 0; g < c.Goroutines; g++ {
		for k := 0; k < c.Each; k++ {
			known[txID(g*8+k)] = true
		}
	}
	o := sim.Options{RTO: 10 * time.Second}
	if c.Fallback {
		o.Fallback = func(e stun.Event) {
			// only datagrams that match no started transaction may arrive here (ids 60000+ or duplicates)
			if e.Message == nil {
				fallbackBad.Store("fallback handler received an event without a message: " + classifyEvent(e))
			}
		}
	}
	w, err := sim.NewWorld(o)
	if err != nil {
		return err
	}
	defer w.Release()
	var written atomic.Int64
	w.Conn.AfterWrite = func(b []byte, err error) {
		if err != nil || len(b) < 20 {
			return
		}
		id := int(b[18])<<8 | int(b[19])
		n := written.Add(1)
		if c.Noise > 0 && n%int64(c.Noise) == 0 {
			w.Conn.Enqueue(response(60000+int(n%4000), int(n), 0))
			w.Conn.Enqueue([]byte{0, 1, 0, 0, 1, 2, 3})
		}
		w.Conn.Enqueue(response(id, id, 0)) // serial == id: the payload names the transaction
	}
	var wg sync.WaitGroup
	errs := make(chan error, c.Goroutines*c.Each+1)
	for g := 0; g < c.Goroutines; g++ {
		g := g
		wg.Add(1)
		go func() {
			defer wg.Done()
			for k := 0; k < c.Each; k++ {
				id := g*8 + k
				want := response(id, id, 0)
				calls := 0
				derr := w.Client.Do(request(id, 28), func(e stun.Event) {
					calls++
					switch {
					case e.Error != nil:
						errs <- fmt.Errorf("transaction %d received error %v", id, e.Error)
					case e.TransactionID != txID(id) || e.Message.TransactionID != txID(id):
						errs <- fmt.Errorf("handler of transaction %d received a message for id %x", id, e.TransactionID)
					case string(e.Message.Raw) != string(want):
						errs <- fmt.Errorf("handler of transaction %d received datagram %x, want its own response %x", id, e.Message.Raw, want)
					default:
						if why := decodedMatchesRaw(e.Message); why != "" {
							errs <- fmt.Errorf("handler of transaction %d: the Message is not the decode of its own bytes: %s", id, why)
						}
					}
				})
				if derr != nil {
					errs <- fmt.Errorf("Do(%d) returned %v", id, derr)
				}
				if calls != 1 {
					errs <- fmt.Errorf("callback of transaction %d ran %d times", id, calls)
				}
			}
		}()
	}
	done := make(chan struct{})
	go func() { wg.Wait(); close(done) }()
	select {
	case <-done:
	case <-time.After(30 * time.Second):
		_ = w.Client.Close()

		return fmt.Errorf("concurrent Do calls did not all return within 30 s")
	}
	_ = w.Client.Close()
	close(errs)
	for e := range errs {
		return e
	}
	if s, _ := fallbackBad.Load().(string); s != "" {
		return fmt.Errorf("%s", s)
	}

	return nil
}

func TestC12_Concurrent(t *testing.T) {
	rec := evid.For("C12")
	c12Notes(rec)
	pbt.Check(t, rec, "concurrent", evid.Pick(150, 3000), func(rt *rapid.T) (any, error) {
		c := c12Conc{Goroutines: rapid.SampledFrom([]int{1, 5, 10, 25, 100, 250}).Draw(rt, "goroutines"), Each: rapid.IntRange(1, 6).Draw(rt, "each"),
			Fallback: rapid.Bool().Draw(rt, "fallback"), Noise: rapid.SampledFrom([]int{0, 1, 3}).Draw(rt, "noise")}
		var err error
		if perr := pbt.Safely(func() { err = runC12Conc(c) }); perr != nil {
			err = perr
		}
		rec.Case("concurrent", evid.NewH().Str(fmt.Sprint(c)).Sum(), c.Goroutines > 1, func() any { return c })

		return c, err
	})
}
