package client

import (
	"bytes"
	"encoding/json"
	"fmt"
	"runtime"
	"sort"
	"testing"
	"time"

	"github.com/pion/stun/v3"
	"github.com/pion/stun/v3/verifharness/evid"
	"github.com/pion/stun/v3/verifharness/pbt"
	"github.com/pion/stun/v3/verifharness/sim"
)

// recycleCase: a retransmission whose Write is in progress (the transport has
// been handed the buffer but has not looked at it yet) while the transaction is
// ended by its response and the client goes on to start other requests, which
// recycle the client's pooled objects. What the transport finally sees must
// still be the original request, byte for byte (C11), and every other write
// must carry its own request.
type recycleCase struct {
	Size     int  `json:"size"`      // size of the request that is retransmitted
	Later    int  `json:"later"`     // number of requests started while the write is in progress
	LaterLen int  `json:"later_len"` // their size
	Direct   bool `json:"direct"`    // response handed to the agent by this goroutine (else by the reader goroutine)
	OneP     bool `json:"one_p"`     // GOMAXPROCS(1): makes sync.Pool reuse deterministic
	Mutate   bool `json:"mutate"`    // the caller also overwrites its own message after Start
	SameID   bool `json:"same_id"`   // the first later request uses the id of the completed transaction again
}

func runRecycle(c recycleCase) error {
	if c.OneP {
		defer runtime.GOMAXPROCS(runtime.GOMAXPROCS(1))
	}
	w, err := sim.NewWorld(sim.Options{RTO: 100 * time.Millisecond})
	if err != nil {
		return err
	}
	defer func() { _ = closeWorld(w, false); w.Release() }()
	var h0 counter
	req := request(0, c.Size)
	want := append([]byte(nil), req.Raw...)
	if err := w.Client.Start(req, h0.handler()); err != nil {
		return fmt.Errorf("harness: Start: %w", err)
	}
	if c.Mutate {
		for i := 20; i < len(req.Raw); i++ {
			req.Raw[i] ^= 0xFF
		}
	}
	parked, release := make(chan struct{}), make(chan struct{})
	n := 0
	w.Conn.OnWrite = func([]byte) {
		n++
		if n == 1 {
			close(parked)
			<-release
		}
	}
	tickDone := make(chan struct{})
	go func() { defer close(tickDone); w.Tick(150 * time.Millisecond) }()
	select {
	case <-parked:
	case <-time.After(10 * time.Second):
		close(release)

		return fmt.Errorf("harness: retransmission write was not reached")
	}
	if c.Direct {
		m := new(stun.Message)
		if err := stun.Decode(response(0, 1, 0), m); err != nil {
			close(release)

			return fmt.Errorf("harness: %w", err)
		}
		if err := w.Agent.Process(m); err != nil {
			close(release)

			return fmt.Errorf("harness: Process: %w", err)
		}
	} else if !w.Conn.Deliver(response(0, 1, 0)) {
		close(release)

		return fmt.Errorf("reader did not process the response while the collector was parked in Write")
	}
	wantAll := [][]byte{want, want}
	for i := 0; i < c.Later; i++ {
		m := request(100+i, c.LaterLen)
		if i == 0 && c.SameID {
			// the completed transaction's id, a different body: its successor must be left alone by whatever
			// the parked retransmission still does (no extra transmission before the successor's deadline)
			m = request(0, c.LaterLen+4)
		}
		wantAll = append(wantAll, append([]byte(nil), m.Raw...))
		if err := w.Client.Start(m, func(stun.Event) {}); err != nil {
			close(release)

			return fmt.Errorf("Start of a later request returned %v", err)
		}
	}
	close(release)
	select {
	case <-tickDone:
	case <-time.After(30 * time.Second):
		return fmt.Errorf("collector callback did not return within 30 s")
	}
	w.Conn.OnWrite = nil
	if got := int(h0.n.Load()); got != 1 || h0.kind() != "response" {
		return fmt.Errorf("handler invoked %d times (first event %q), want once with the response", got, h0.kind())
	}
	writes, _ := w.Conn.Snapshot()
	var got [][]byte
	for _, wr := range writes {
		got = append(got, wr.Bytes)
	}
	sort.Slice(got, func(i, j int) bool { return bytes.Compare(got[i], got[j]) < 0 })
	sort.Slice(wantAll, func(i, j int) bool { return bytes.Compare(wantAll[i], wantAll[j]) < 0 })
	if len(got) != len(wantAll) {
		return fmt.Errorf("%d writes reached the connection, want %d (request, its retransmission and %d later requests)", len(got), len(wantAll), c.Later)
	}
	for i := range got {
		if !bytes.Equal(got[i], wantAll[i]) {
			for _, wr := range writes {
				if len(wr.Bytes) >= 20 && !bytes.Equal(wr.Bytes, want) && (bytes.Equal(wr.Bytes[8:20], want[8:20]) || len(wr.Bytes) == len(want)) {
					return fmt.Errorf("a transmission of the %d-byte request differs from the message as it was at Start: wrote [%d bytes %x...], started [%x...] "+
						"(the write was in progress while the response ended the transaction and %d later requests were started)", len(want), len(wr.Bytes), head(wr.Bytes, 32), head(want, 32), c.Later)
				}
			}

			return fmt.Errorf("the writes seen by the connection are not the started requests plus one retransmission: write [%d bytes %x...] unexpected", len(got[i]), head(got[i], 32))
		}
	}

	return nil
}

func head(b []byte, n int) []byte {
	if len(b) < n {
		return b
	}

	return b[:n]
}

func TestC11_Recycled(t *testing.T) {
	rec := evid.For("C11")
	c11Notes(rec)
	rec.Note("recycle_scenario", "a retransmission Write parked inside the connection (buffer handed over, not yet looked at) while the response ends the transaction and 1..16 further requests "+
		"of several sizes are started (recycling pooled transaction objects and scratch buffers): every write seen by the connection must be a started request, the parked one byte-identical to the original")
	reps := evid.Pick(1, 4)
	for rep := 0; rep < reps; rep++ {
		for _, size := range []int{28, 84, 1500, 2044, 3000} {
			for _, laterLen := range []int{28, 220, 2048, 4000} {
				for _, later := range []int{1, 4, 16} {
					for v := 0; v < 16; v++ {
						c := recycleCase{Size: size, Later: later, LaterLen: laterLen, Direct: v&1 != 0, OneP: v&2 != 0, Mutate: v&4 != 0, SameID: v&8 != 0}
						var err error
						if perr := pbt.Safely(func() { err = guardDeadlock(120*time.Second, "recycled-write scenario", func() error { return runRecycle(c) }) }); perr != nil {
							err = perr
						}
						rec.Case("recycled", evid.NewH().Str(fmt.Sprint(c)).Sum(), true, func() any { return c })
						if err != nil {
							pbt.Fail(t, rec, "recycle", c, "%v", err)

							return
						}
					}
				}
			}
		}
	}
}

func TestC11_ReplayRecycled(t *testing.T) {
	rec := evid.For("C11")
	for _, path := range evid.ReplayFiles() {
		rp, err := evid.LoadReplay(path)
		if err != nil || rp.Property != "C11" || rp.Kind != "recycle" {
			continue
		}
		var c recycleCase
		if err := json.Unmarshal(rp.Case, &c); err != nil {
			t.Fatalf("bad replay %s: %v", path, err)
		}
		rec.Count("replays_run", 1)
		if err := runRecycle(c); err != nil {
			rec.ReplayFailed(path, err.Error())
			t.Errorf("replay %s still fails: %v", path, err)
		}
	}
}
