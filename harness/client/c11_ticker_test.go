package client

import (
	"bytes"
	"encoding/json"
	"errors"
	"fmt"
	"sync/atomic"
	"testing"
	"time"

	"github.com/pion/stun/v3"
	"github.com/pion/stun/v3/verifharness/evid"
	"github.com/pion/stun/v3/verifharness/pbt"
	"github.com/pion/stun/v3/verifharness/sim"
)

// tickerClockCase: the injected clock together with the BUILT-IN ticker collector. "The clock" of
// C11 is the client's clock: while it stands still nothing may be retransmitted or timed out, however
// often the ticker fires; once it has passed a deadline the ticker acts on it.
type tickerClockCase struct {
	RTOms     int  `json:"rto_ms"`
	Size      int  `json:"size"`
	NoRetrans bool `json:"no_retransmit,omitempty"`
}

func runTickerClock(c tickerClockCase) error {
	clock := &sim.Clock{}
	var seq atomic.Int64
	conn := sim.NewConn(clock, &seq)
	rto := time.Duration(c.RTOms) * time.Millisecond
	opts := []stun.ClientOption{stun.WithClock(clock), stun.WithTimeoutRate(time.Millisecond), stun.WithRTO(rto)}
	if c.NoRetrans {
		opts = append(opts, stun.WithNoRetransmit)
	}
	cl, err := stun.NewClient(conn, opts...)
	if err != nil {
		return fmt.Errorf("harness: NewClient: %w", err)
	}
	defer func() { _ = cl.Close() }()
	var h counter
	var firedAt atomic.Int64
	req := request(0, c.Size)
	want := append([]byte(nil), req.Raw...)
	if err := cl.Start(req, func(e stun.Event) { firedAt.Store(int64(clock.Elapsed()) + 1); h.handler()(e) }); err != nil {
		return fmt.Errorf("harness: Start: %w", err)
	}
	look := func(stage string, wantWrites int, wantCalls int) error {
		writes, _ := conn.Snapshot()
		if len(writes) > wantWrites {
			return fmt.Errorf("%s: %d writes reached the connection although the client's clock (at %v, RTO %v) allows %d; the built-in collector must act on the client's clock", stage, len(writes), clock.Elapsed(), rto, wantWrites)
		}
		if got := int(h.n.Load()); got > wantCalls {
			return fmt.Errorf("%s: handler already invoked (%s) although the client's clock is at %v (RTO %v)", stage, h.kind(), clock.Elapsed(), rto)
		}
		for _, wr := range writes {
			if !bytes.Equal(wr.Bytes, want) {
				return fmt.Errorf("%s: a transmission differs from the message as it was at Start", stage)
			}
		}

		return nil
	}
	// the clock stands still: some 30 ticks pass
	time.Sleep(30 * time.Millisecond)
	if err := look("clock standing still at the start instant", 1, 0); err != nil {
		return err
	}
	clock.Set(rto - 1)
	time.Sleep(15 * time.Millisecond)
	if err := look("clock 1 ns before the first deadline", 1, 0); err != nil {
		return err
	}
	clock.Set(rto + 1)
	deadline := time.Now().Add(20 * time.Second)
	for {
		writes, _ := conn.Snapshot()
		if c.NoRetrans && h.n.Load() == 1 {
			if h.kind() != "timeout" {
				return fmt.Errorf("WithNoRetransmit: handler received %s, want the timeout", h.kind())
			}
			if len(writes) != 1 {
				return fmt.Errorf("WithNoRetransmit: %d writes, want exactly 1", len(writes))
			}

			return nil
		}
		if !c.NoRetrans && len(writes) >= 2 {
			break
		}
		if time.Now().After(deadline) {
			return fmt.Errorf("the client's clock passed the first deadline (RTO %v) but the built-in collector (1 ms rate) did nothing within 20 s", rto)
		}
		time.Sleep(time.Millisecond)
	}
	// second transmission happened; the next deadline is 2*RTO after the instant the collector saw
	time.Sleep(15 * time.Millisecond)
	if err := look("clock standing still after the first retransmission", 2, 0); err != nil {
		return err
	}
	if cerr := cl.Close(); cerr != nil {
		return fmt.Errorf("Close returned %v", cerr)
	}
	if got := int(h.n.Load()); got != 1 || h.kind() != "closed" {
		return fmt.Errorf("after Close: handler invoked %d times (%s), want once with the closed error", got, h.kind())
	}
	if !errors.Is(cl.Close(), stun.ErrClientClosed) {
		return fmt.Errorf("second Close did not return ErrClientClosed")
	}

	return nil
}

func TestC11_TickerClock(t *testing.T) {
	rec := evid.For("C11")
	c11Notes(rec)
	rec.Note("ticker_clock", "injected clock + built-in ticker collector (1 ms rate): nothing is retransmitted or timed out while the injected clock stands still (before / 1 ns before the deadline, and again after the first "+
		"retransmission), and the collector acts once the injected clock has passed the deadline")
	for rep := 0; rep < evid.Pick(1, 6); rep++ {
		for _, rtoms := range []int{20, 300} {
			for _, size := range []int{28, 2052} {
				for _, nr := range []bool{false, true} {
					c := tickerClockCase{RTOms: rtoms, Size: size, NoRetrans: nr}
					var err error
					if perr := pbt.Safely(func() { err = guardDeadlock(120*time.Second, "ticker-clock scenario", func() error { return runTickerClock(c) }) }); perr != nil {
						err = perr
					}
					rec.Case("ticker-clock", evid.NewH().Str(fmt.Sprint(c)).Sum(), true, func() any { return c })
					if err != nil {
						pbt.Fail(t, rec, "tickerclock", c, "%v", err)

						return
					}
				}
			}
		}
	}
}

func TestC11_ReplayTickerClock(t *testing.T) {
	rec := evid.For("C11")
	for _, path := range evid.ReplayFiles() {
		rp, err := evid.LoadReplay(path)
		if err != nil || rp.Property != "C11" || rp.Kind != "tickerclock" {
			continue
		}
		var c tickerClockCase
		if err := json.Unmarshal(rp.Case, &c); err != nil {
			t.Fatalf("bad replay %s: %v", path, err)
		}
		rec.Count("replays_run", 1)
		if err := runTickerClock(c); err != nil {
			rec.ReplayFailed(path, err.Error())
			t.Errorf("replay %s still fails: %v", path, err)
		}
	}
}
