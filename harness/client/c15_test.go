package client

import (
	"encoding/json"
	"errors"
	"fmt"
	"os"
	"runtime"
	"strings"
	"sync"
	"sync/atomic"
	"testing"
	"time"

	"github.com/pion/stun/v3"
	"github.com/pion/stun/v3/verifharness/evid"
	"github.com/pion/stun/v3/verifharness/pbt"
	"github.com/pion/stun/v3/verifharness/sim"
	"pgregory.net/rapid"
)

// leakedGoroutines looks for client-owned goroutines. A goroutine that has
// signalled its WaitGroup may still be unwinding for a moment, so the check
// retries briefly; a real leak never goes away.
func leakedGoroutines() string {
	var found string
	for try := 0; try < 200; try++ {
		buf := make([]byte, 1<<20)
		n := runtime.Stack(buf, true)
		found = ""
		for _, g := range strings.Split(string(buf[:n]), "\n\n") {
			if strings.Contains(g, "(*Client).readUntilClosed") || strings.Contains(g, "(*tickerCollector).Start.func1") {
				found = g

				break
			}
		}
		if found == "" {
			return ""
		}
		time.Sleep(5 * time.Millisecond)
	}

	return found
}

func c15Notes(rec *evid.Rec) {
	rec.Note("rule", "(a) deterministic histories (engine of C10) over option combinations {retransmit / WithNoRetransmit, WithNoConnClose, fallback handler, RTO} ending in 1..3 Close calls with transactions in flight, "+
		"x injected Close errors from the connection and (through the delegating agent) the agent: exactly one Close returns nil or a CloseErr carrying exactly the injected errors, later ones ErrClientClosed, the connection is closed once "+
		"(never with WithNoConnClose), Start/Do/Indicate afterwards return ErrClientClosed without writing, no client goroutine (reader, ticker collector) remains, no handler runs afterwards. "+
		"(b) the built-in ticker collector with a real clock. (c) concurrent: 2..8 goroutines issuing Start/Do/Indicate/SetRTO, a responder answering written requests, a ticker driving virtual time, and 1..3 concurrent Close calls, "+
		"under the race detector; schedule-independent invariants asserted at quiescence (one successful Close, close count, exactly-once handlers, Do returned, no handler stamped after Close returned, no write after Close, no leaked goroutine, 30 s watchdog). "+
		"Non-trivial = Close issued while a transaction is in flight or concurrently with another call, or with an injected close error; distinct by case.")
	rec.Note("assumptions", []string{"the collector's Close succeeds; under WithNoConnClose the harness keeps making Read return while Close waits (preconditions stated in the property)",
		"concurrent schedules are chosen by the Go scheduler (sampled, DESIGN section 7)"})
}

func TestC15_Histories(t *testing.T) {
	rec := evid.For("C15")
	c15Notes(rec)
	pbt.Check(t, rec, "history", evid.Pick(1500, 30000), func(rt *rapid.T) (any, error) {
		c := genClientCase(rt, 3, 25)
		c.ConnCloseErr = rapid.IntRange(0, 3).Draw(rt, "connCloseErr") == 0
		c.AgentCloseErr = rapid.IntRange(0, 3).Draw(rt, "agentCloseErr") == 0
		if c.ConnCloseErr || c.AgentCloseErr {
			c.CloseErrKind = rapid.IntRange(0, 7).Draw(rt, "closeErrKind")
		}
		// end with transactions in flight, then 1..3 Close calls and closed-state probes
		for i := 0; i < rapid.IntRange(0, 3).Draw(rt, "late"); i++ {
			c.Ops = append(c.Ops, hop{Op: rapid.SampledFrom([]string{"start", "do"}).Draw(rt, "lateOp"), ID: 10 + i, Size: 28})
		}
		for i := 0; i < rapid.IntRange(1, 3).Draw(rt, "closes"); i++ {
			c.Ops = append(c.Ops, hop{Op: "close"})
			c.Ops = append(c.Ops, hop{Op: rapid.SampledFrom([]string{"start", "do", "indicate"}).Draw(rt, "probe"), ID: 20 + i, Size: 20})
		}
		e, err := safeRun(c)
		if err == nil {
			if g := leakedGoroutines(); g != "" {
				err = fmt.Errorf("a client goroutine is still running after Close returned:\n%s", g)
			}
		}
		nt := e != nil && (e.st.closeInFlight || c.ConnCloseErr || c.AgentCloseErr)
		rec.Case("history", histSig(c), nt, func() any { return c })

		return c, err
	})
}

// TestC15_TickerCollector covers the built-in collector goroutine.
func TestC15_TickerCollector(t *testing.T) {
	rec := evid.For("C15")
	c15Notes(rec)
	for i := 0; i < evid.Pick(40, 400); i++ {
		clock := &sim.Clock{}
		var seq atomic.Int64
		conn := sim.NewConn(clock, &seq)
		rate := time.Millisecond
		if i%7 == 3 {
			rate = time.Hour // Close must not depend on the next tick
		}
		rto := time.Duration(1+i%3) * time.Millisecond
		switch i % 11 {
		case 5:
			rto = 0 // "use the default"
		case 9:
			rto = -time.Millisecond // nonsensical but accepted: every deadline is already in the past
		}
		opts := []stun.ClientOption{stun.WithTimeoutRate(rate), stun.WithRTO(rto)}
		if i%2 == 0 {
			opts = append(opts, stun.WithClock(clock))
		}
		if i%5 == 0 {
			opts = append(opts, stun.WithNoConnClose())
		}
		var c *stun.Client
		var err error
		if perr := pbt.Safely(func() { c, err = stun.NewClient(conn, opts...) }); perr != nil {
			pbt.Fail(t, rec, "ticker", map[string]int{"i": i}, "NewClient (tick rate %v, RTO %v): %v", rate, rto, perr)

			return
		}
		if err != nil {
			t.Fatalf("NewClient: %v", err)
		}
		var calls atomic.Int32
		n := i % 4
		for k := 0; k < n; k++ {
			if err := c.Start(request(k, 28), func(stun.Event) { calls.Add(1) }); err != nil {
				pbt.Fail(t, rec, "ticker", map[string]int{"i": i}, "Start: %v", err)

				return
			}
		}
		if i%3 == 0 {
			time.Sleep(3 * time.Millisecond)
		}
		done := make(chan error, 1)
		go func() { done <- c.Close() }()
		var cerr error
	wait:
		for deadline := time.After(30 * time.Second); ; {
			select {
			case cerr = <-done:
				break wait
			case <-deadline:
				pbt.Fail(t, rec, "ticker", map[string]int{"i": i}, "Close with the default collector did not return within 30 s")

				return
			case <-time.After(200 * time.Microsecond):
				if i%5 == 0 {
					conn.Unblock()
				}
			}
		}
		_, closes := conn.Snapshot()
		wantCloses := 1
		if i%5 == 0 {
			wantCloses = 0
		}
		var problem string
		switch {
		case cerr != nil:
			problem = fmt.Sprintf("Close returned %v", cerr)
		case closes != wantCloses:
			problem = fmt.Sprintf("connection closed %d times, want %d", closes, wantCloses)
		case !errors.Is(c.Close(), stun.ErrClientClosed):
			problem = "second Close did not return ErrClientClosed"
		case int(calls.Load()) != n:
			problem = fmt.Sprintf("%d handler invocations for %d in-flight transactions after Close", calls.Load(), n)
		default:
			if g := leakedGoroutines(); g != "" {
				problem = "goroutine left behind after Close:\n" + g
			}
		}
		rec.Case("ticker-collector", evid.NewH().I(i).Sum(), n > 0, func() any { return map[string]int{"variant": i, "in_flight": n} })
		if problem != "" {
			pbt.Fail(t, rec, "ticker", map[string]int{"i": i}, "%s", problem)

			return
		}
	}
}

// TestC15_TickerParked: the built-in collector goroutine is parked inside its tick (in the clock)
// while Close is called. Close may only return once that goroutine has finished.
func TestC15_TickerParked(t *testing.T) {
	rec := evid.For("C15")
	c15Notes(rec)
	for i := 0; i < evid.Pick(6, 40); i++ {
		clock := &sim.Clock{}
		var seq atomic.Int64
		conn := sim.NewConn(clock, &seq)
		var armed atomic.Bool
		parked := make(chan struct{}, 1)
		release := make(chan struct{})
		var once sync.Once
		clock.OnNow = func() {
			if armed.Load() {
				once.Do(func() {
					parked <- struct{}{}
					<-release
				})
			}
		}
		c, err := stun.NewClient(conn, stun.WithClock(clock), stun.WithTimeoutRate(time.Millisecond), stun.WithRTO(time.Hour))
		if err != nil {
			t.Fatalf("NewClient: %v", err)
		}
		if i%2 == 1 {
			_ = c.Start(request(1, 28), func(stun.Event) {})
		}
		armed.Store(true)
		problem := ""
		select {
		case <-parked:
		case <-time.After(10 * time.Second):
			problem = "harness: the ticker goroutine never asked the clock"
		}
		done := make(chan error, 1)
		if problem == "" {
			go func() { done <- c.Close() }()
			select {
			case <-done:
				// Close returned although the collector goroutine is provably still inside its tick
				problem = "Close returned while the collector goroutine was still running (parked inside its tick)"
			case <-time.After(40 * time.Millisecond):
			}
		}
		close(release)
		if problem == "" {
			select {
			case cerr := <-done:
				if cerr != nil {
					problem = fmt.Sprintf("Close returned %v", cerr)
				} else if g := leakedGoroutines(); g != "" {
					problem = "goroutine left behind after Close:\n" + g
				}
			case <-time.After(30 * time.Second):
				problem = "Close did not return within 30 s after the collector tick finished"
			}
		} else {
			_ = c.Close()
		}
		rec.Case("ticker-parked", evid.NewH().Str("parked").I(i).Sum(), true, func() any { return map[string]int{"variant": i} })
		if problem != "" {
			pbt.Fail(t, rec, "ticker", map[string]int{"parked_variant": i}, "%s", problem)

			return
		}
	}
}

// ---- concurrent use ----------------------------------------------------------

type stressCase struct {
	Starters    int   `json:"starters"`
	PerStarter  int   `json:"per_starter"`
	Closers     int   `json:"closers"`
	CloseAfter  int   `json:"close_after"` // closers wait until this many requests were written
	AnswerEvery int   `json:"answer_every"`
	NoConnClose bool  `json:"no_conn_close,omitempty"`
	NoRetrans   bool  `json:"no_retransmit,omitempty"`
	FailEvery   int   `json:"fail_every,omitempty"`
	Yields      []int `json:"yields,omitempty"`
	GateYields  []int `json:"gate_yields,omitempty"` // perturbation at the control points (agent tap, connection write)
	Repeat      int   `json:"repeat,omitempty"`
}

type stressTx struct {
	id       int
	err      error
	calls    atomic.Int32
	lastSeq  atomic.Int64
	isDo     bool
	returned atomic.Bool
}

// runStress executes one concurrent scenario and checks the
// schedule-independent invariants. It reports whether Close overlapped an
// in-flight transaction or another call.
func runStress(c stressCase, prop string) (overlap bool, err error) {
	w, werr := sim.NewWorld(sim.Options{RTO: 50 * time.Millisecond, NoRetransmit: c.NoRetrans, NoConnClose: c.NoConnClose})
	if werr != nil {
		return false, werr
	}
	defer w.Release()
	var written atomic.Int64
	var serial atomic.Int64
	w.Conn.AfterWrite = func(b []byte, err error) {
		if err != nil || len(b) < 20 {
			return
		}
		n := written.Add(1)
		if c.FailEvery > 0 && n%int64(c.FailEvery) == 0 {
			w.Conn.FailNextWrites(1)
		}
		if c.AnswerEvery > 0 && n%int64(c.AnswerEvery) == 0 {
			id := int(b[18])<<8 | int(b[19])
			w.Conn.Enqueue(response(id, int(serial.Add(1)), 0))
		}
	}
	if len(c.GateYields) > 0 {
		// perturbed interleavings: goroutines yield / pause at the points where the client calls out
		// between its critical sections (agent Start/Stop/Process/Collect/Close, connection Write)
		var gate atomic.Int64
		perturb := func() {
			n := c.GateYields[int(gate.Add(1))%len(c.GateYields)]
			switch {
			case n >= 5:
				time.Sleep(time.Duration(n) * 10 * time.Microsecond)
			default:
				for k := 0; k < n; k++ {
					runtime.Gosched()
				}
			}
		}
		w.Agent.Before = func(string, [12]byte) { perturb() }
		w.Conn.OnWrite = func([]byte) { perturb() }
	}
	stop := make(chan struct{})
	var crashed atomic.Value // first panic raised by the library on a harness goroutine
	guard := func() {
		if r := recover(); r != nil {
			buf := make([]byte, 8192)
			n := runtime.Stack(buf, false)
			crashed.CompareAndSwap(nil, fmt.Sprintf("panic: %v\n%s", r, buf[:n]))
		}
	}
	var bg sync.WaitGroup
	bg.Add(1)
	go func() { // ticker: drives virtual time so that retransmissions and timeouts happen
		defer bg.Done()
		defer guard()
		d := time.Duration(0)
		for {
			select {
			case <-stop:
				return
			default:
			}
			d += 60 * time.Millisecond
			w.Tick(d)
			runtime.Gosched()
		}
	}()
	var txs []*stressTx
	var txMu sync.Mutex
	var wg sync.WaitGroup
	var closeReturnSeq atomic.Int64
	var okCloses, closedCloses atomic.Int32
	var closeErrs []error
	var ceMu sync.Mutex
	yield := func(n int) {
		if len(c.Yields) == 0 {
			return
		}
		for k := 0; k < c.Yields[n%len(c.Yields)]; k++ {
			runtime.Gosched()
		}
	}
	var startersLeft atomic.Int32
	startersLeft.Store(int32(c.Starters))
	for s := 0; s < c.Starters; s++ {
		s := s
		wg.Add(1)
		go func() {
			defer wg.Done()
			defer startersLeft.Add(-1)
			defer guard()
			for k := 0; k < c.PerStarter; k++ {
				tx := &stressTx{id: s*256 + k, isDo: (s+k)%3 == 0}
				txMu.Lock()
				txs = append(txs, tx)
				txMu.Unlock()
				h := func(stun.Event) {
					tx.calls.Add(1)
					tx.lastSeq.Store(w.Seq.Add(1))
				}
				yield(s*31 + k)
				switch {
				case (s+k)%7 == 6:
					w.Client.SetRTO(time.Duration(10+k) * time.Millisecond)
					tx.err = w.Client.Indicate(request(tx.id, 20))
					tx.err = errors.Join(tx.err, errIndication)
				case tx.isDo:
					tx.err = w.Client.Do(request(tx.id, 28), h)
				default:
					tx.err = w.Client.Start(request(tx.id, 28), h)
				}
				tx.returned.Store(true)
			}
		}()
	}
	for cl := 0; cl < c.Closers; cl++ {
		wg.Add(1)
		go func() {
			defer wg.Done()
			for written.Load() < int64(c.CloseAfter) && startersLeft.Load() > 0 {
				select {
				case <-stop:
					return
				default:
					runtime.Gosched()
				}
			}
			done := make(chan error, 1)
			go func() {
				defer func() {
					if r := recover(); r != nil {
						crashed.CompareAndSwap(nil, fmt.Sprintf("panic in Close: %v", r))
						done <- fmt.Errorf("Close panicked: %v", r)
					}
				}()
				done <- w.Client.Close()
			}()
			for {
				select {
				case e := <-done:
					seq := w.Seq.Add(1)
					if errors.Is(e, stun.ErrClientClosed) {
						closedCloses.Add(1)
					} else {
						okCloses.Add(1)
						closeReturnSeq.Store(seq)
						ceMu.Lock()
						closeErrs = append(closeErrs, e)
						ceMu.Unlock()
					}

					return
				case <-time.After(200 * time.Microsecond):
					if c.NoConnClose {
						w.Conn.Unblock()
					}
				}
			}
		}()
	}
	finished := make(chan struct{})
	go func() { wg.Wait(); close(finished) }()
	select {
	case <-finished:
	case <-time.After(30 * time.Second):
		buf := make([]byte, 1<<20)
		n := runtime.Stack(buf, true)
		close(stop)

		return false, fmt.Errorf("deadlock: concurrent Start/Do/Indicate/SetRTO/Close did not finish within 30 s\n%s", buf[:n])
	}
	close(stop)
	bg.Wait()
	if p, _ := crashed.Load().(string); p != "" {
		return false, fmt.Errorf("the client panicked under concurrent use: %s", p)
	}
	// a final Close for scenarios without closers / whose closers saw too few writes
	if okCloses.Load() == 0 {
		done := make(chan error, 1)
		go func() { done <- w.Client.Close() }()
	fin:
		for {
			select {
			case e := <-done:
				if errors.Is(e, stun.ErrClientClosed) {
					return false, fmt.Errorf("final Close returned ErrClientClosed although no earlier Close succeeded")
				}
				closeReturnSeq.Store(w.Seq.Add(1))
				okCloses.Add(1)

				break fin
			case <-time.After(200 * time.Microsecond):
				w.Conn.Unblock()
			}
		}
	}
	if okCloses.Load() != 1 {
		return false, fmt.Errorf("%d Close calls succeeded (and %d returned ErrClientClosed); exactly one must succeed", okCloses.Load(), closedCloses.Load())
	}
	for _, e := range closeErrs {
		if e != nil {
			return false, fmt.Errorf("Close returned %v although no close error was injected", e)
		}
	}
	_, closes := w.Conn.Snapshot()
	if (c.NoConnClose && closes != 0) || (!c.NoConnClose && closes != 1) {
		return false, fmt.Errorf("connection closed %d times (WithNoConnClose=%v)", closes, c.NoConnClose)
	}
	cr := closeReturnSeq.Load()
	for _, tx := range txs {
		n := tx.calls.Load()
		isInd := errors.Is(tx.err, errIndication)
		switch {
		case isInd:
			if n != 0 {
				return false, fmt.Errorf("indication %d: handler invoked", tx.id)
			}
		case tx.err == nil && n != 1:
			return false, fmt.Errorf("transaction %d (Do=%v): Start returned nil but its handler ran %d times after Close returned (want exactly 1)", tx.id, tx.isDo, n)
		case tx.err != nil && n != 0:
			return false, fmt.Errorf("transaction %d: Start returned %v but its handler ran %d times (want 0)", tx.id, tx.err, n)
		}
		if n > 0 && tx.lastSeq.Load() > cr {
			return false, fmt.Errorf("transaction %d: handler invoked after Close had returned", tx.id)
		}
		if n == 0 && tx.err == nil && !isInd {
			overlap = true
		}
	}
	// after Close: calls return ErrClientClosed and write nothing
	wrBefore, _ := w.Conn.Snapshot()
	for _, f := range []func() error{
		func() error { return w.Client.Start(request(9999, 20), func(stun.Event) {}) },
		func() error { return w.Client.Do(request(9998, 20), func(stun.Event) {}) },
		func() error { return w.Client.Indicate(request(9997, 20)) },
		func() error { return w.Client.Close() },
	} {
		if e := f(); !errors.Is(e, stun.ErrClientClosed) {
			return false, fmt.Errorf("call after Close returned %v, want ErrClientClosed", e)
		}
	}
	if wrAfter, _ := w.Conn.Snapshot(); len(wrAfter) != len(wrBefore) {
		return false, fmt.Errorf("a call after Close wrote to the connection")
	}
	if g := leakedGoroutines(); g != "" {
		return false, fmt.Errorf("goroutine left behind after Close:\n%s", g)
	}
	for _, tx := range txs {
		if tx.calls.Load() == 1 && tx.lastSeq.Load() > 0 && closedCloses.Load()+okCloses.Load() > 0 {
			overlap = overlap || c.CloseAfter < c.Starters*c.PerStarter
		}
	}
	_ = prop

	return overlap, nil
}

var errIndication = errors.New("indication (no handler)")

func genStress(rt *rapid.T) stressCase {
	c := stressCase{
		Starters:    rapid.IntRange(2, 8).Draw(rt, "starters"),
		PerStarter:  rapid.IntRange(1, 12).Draw(rt, "perStarter"),
		Closers:     rapid.IntRange(0, 3).Draw(rt, "closers"),
		AnswerEvery: rapid.SampledFrom([]int{0, 1, 2, 3}).Draw(rt, "answerEvery"),
		NoConnClose: rapid.IntRange(0, 4).Draw(rt, "noConnClose") == 0,
		NoRetrans:   rapid.IntRange(0, 3).Draw(rt, "noRetransmit") == 0,
		FailEvery:   rapid.SampledFrom([]int{0, 0, 5, 11}).Draw(rt, "failEvery"),
		Yields:      rapid.SliceOfN(rapid.IntRange(0, 4), 1, 8).Draw(rt, "yields"),
	}
	if rapid.Bool().Draw(rt, "perturbGates") {
		c.GateYields = rapid.SliceOfN(rapid.IntRange(0, 8), 1, 12).Draw(rt, "gateYields")
	}
	c.CloseAfter = rapid.IntRange(0, c.Starters*c.PerStarter).Draw(rt, "closeAfter")

	return c
}

func stressTest(t *testing.T, prop string, n int) {
	t.Helper()
	rec := evid.For(prop)
	if os.Getenv("VERIF_RACE") != "" {
		rec.Note("race_detector", "on")
	}
	pbt.Check(t, rec, "stress", n, func(rt *rapid.T) (any, error) {
		c := genStress(rt)
		var overlap bool
		var err error
		if perr := pbt.Safely(func() { overlap, err = runStress(c, prop) }); perr != nil {
			err = perr
		}
		rec.Case("concurrent", evid.NewH().Str(fmt.Sprint(c)).Sum(), overlap || c.Closers > 0, func() any { return c })

		return c, err
	})
}

func TestC15_Concurrent(t *testing.T) {
	c15Notes(evid.For("C15"))
	stressTest(t, "C15", evid.Pick(1500, 40000))
}

func TestC10_Stress(t *testing.T) {
	c10Notes(evid.For("C10"))
	stressTest(t, "C10", evid.Pick(1000, 30000))
}

func replayStress(t *testing.T, prop string) {
	t.Helper()
	rec := evid.For(prop)
	for _, path := range evid.ReplayFiles() {
		rp, err := evid.LoadReplay(path)
		if err != nil {
			t.Fatalf("cannot load %s: %v", path, err)
		}
		if rp.Property != prop || rp.Kind != "stress" {
			continue
		}
		var c stressCase
		if err := json.Unmarshal(rp.Case, &c); err != nil {
			t.Fatalf("bad replay %s: %v", path, err)
		}
		n := c.Repeat
		if n == 0 {
			n = 200
		}
		rec.Count("replays_run", 1)
		for i := 0; i < n; i++ {
			if _, err := runStress(c, prop); err != nil {
				rec.ReplayFailed(path, err.Error())
				t.Errorf("replay %s fails (run %d): %v", path, i, err)

				break
			}
		}
	}
}

func TestC15_Replay(t *testing.T) {
	replayHistories(t, "C15")
	replayStress(t, "C15")
}

func TestC10_ReplayStress(t *testing.T) { replayStress(t, "C10") }
