package client

import (
	"errors"
	"fmt"
	"runtime"
	"sync"
	"sync/atomic"
	"testing"
	"time"

	"github.com/pion/stun/v3"
	"github.com/pion/stun/v3/verifharness/evid"
	"github.com/pion/stun/v3/verifharness/pbt"
	"github.com/pion/stun/v3/verifharness/sim"
)

// gatedCase selects a named targeted interleaving, steered through the
// control points the client calls between its critical sections (agent tap,
// connection, collector) - no source hooks.
type gatedCase struct {
	Name        string `json:"name"`
	NoConnClose bool   `json:"no_conn_close,omitempty"`
	NoRetrans   bool   `json:"no_retransmit,omitempty"`
	UseDo       bool   `json:"use_do,omitempty"`
	OneP        bool   `json:"one_p,omitempty"` // GOMAXPROCS(1): makes sync.Pool reuse deterministic
}

type counter struct {
	n     atomic.Int32 // completed invocations (incremented last: whoever sees n >= 1 also sees a kind)
	slot  atomic.Int32
	kinds [4]atomic.Value
}

func (c *counter) handler() stun.Handler {
	return func(e stun.Event) {
		i := c.slot.Add(1)
		if int(i) <= len(c.kinds) {
			c.kinds[i-1].Store(classifyEvent(e))
		}
		c.n.Add(1)
	}
}

func (c *counter) kind() string {
	s, _ := c.kinds[0].Load().(string)

	return s
}

func closeWorld(w *sim.World, noConnClose bool) error {
	done := make(chan error, 1)
	go func() { done <- w.Client.Close() }()
	for deadline := time.After(30 * time.Second); ; {
		select {
		case err := <-done:
			return err
		case <-deadline:
			return fmt.Errorf("Close did not return within 30 s")
		case <-time.After(200 * time.Microsecond):
			if noConnClose {
				w.Conn.Unblock()
			}
		}
	}
}

// runGated runs the scenario and then probes the process-wide object pools: a pooled
// transaction released twice by the scenario would be handed to two later transactions.
func runGated(c gatedCase) error {
	if c.OneP {
		defer runtime.GOMAXPROCS(runtime.GOMAXPROCS(1))
	}
	return guardDeadlock(90*time.Second, fmt.Sprintf("gated scenario %q", c.Name), func() error {
		if err := runGatedScenario(c); err != nil {
			return err
		}
		if err := poolProbe(); err != nil {
			return fmt.Errorf("after scenario %q: %w", c.Name, err)
		}

		return nil
	})
}

// guardDeadlock runs f in its own goroutine; if it does not return in time (some call into the client
// never came back) the verdict is a deadlock with every goroutine's stack, instead of a hung check.
func guardDeadlock(d time.Duration, what string, f func() error) error {
	done := make(chan error, 1)
	go func() { done <- f() }()
	select {
	case err := <-done:
		return err
	case <-time.After(d):
		buf := make([]byte, 1<<18)
		n := runtime.Stack(buf, true)

		return fmt.Errorf("deadlock: %s did not finish within %v (a call into the client never returned)\n%s", what, d, buf[:n])
	}
}

// poolProbe starts a few transactions on a new client and answers them in reverse order: every
// handler must see exactly its own response.
func poolProbe() error {
	w, err := sim.NewWorld(sim.Options{RTO: 10 * time.Second})
	if err != nil {
		return err
	}
	defer func() { _ = closeWorld(w, false); w.Release() }()
	const k = 4
	var got [k][]string
	var mu sync.Mutex
	for i := 0; i < k; i++ {
		i := i
		if err := w.Client.Start(request(200+i, 28), func(e stun.Event) {
			mu.Lock()
			got[i] = append(got[i], fmt.Sprintf("%s/%x", classifyEvent(e), e.TransactionID[8:]))
			mu.Unlock()
		}); err != nil {
			return fmt.Errorf("probe: Start %d returned %v", i, err)
		}
	}
	for i := k - 1; i >= 0; i-- {
		if !w.Conn.Deliver(response(200+i, 50+i, 0)) {
			return fmt.Errorf("probe: reader did not take the response for transaction %d", i)
		}
	}
	mu.Lock()
	defer mu.Unlock()
	for i := 0; i < k; i++ {
		id := txID(200 + i)
		want := fmt.Sprintf("response/%x", id[8:])
		if len(got[i]) != 1 || got[i][0] != want {
			return fmt.Errorf("pooled objects are shared between transactions: of %d transactions started on a new client and answered in reverse order, the handler of transaction %d received %v, want [%s] (all: %v)", k, i, got[i], want, got)
		}
	}

	return nil
}

func runGatedScenario(c gatedCase) error {
	w, err := sim.NewWorld(sim.Options{RTO: 100 * time.Millisecond, NoConnClose: c.NoConnClose, NoRetransmit: c.NoRetrans})
	if err != nil {
		return err
	}
	defer func() { _ = closeWorld(w, c.NoConnClose); w.Release() }()
	var h0 counter
	start := func(id int, h *counter) error {
		if c.UseDo {
			return w.Client.Do(request(id, 28), func(e stun.Event) { h.handler()(e) })
		}

		return w.Client.Start(request(id, 28), h.handler())
	}
	exactly := func(h *counter, want int, what string) error {
		if got := int(h.n.Load()); got != want {
			return fmt.Errorf("%s: handler invoked %d times, want %d (first event: %s)", what, got, want, h.kind())
		}

		return nil
	}
	switch c.Name {
	case "close-inside-start-before-agent-registration":
		// Close runs entirely between the client-table and the agent registration
		var closeErr error
		once := false
		w.Agent.Before = func(op string, _ [12]byte) {
			if op == "start" && !once {
				once = true
				closeErr = closeWorld(w, c.NoConnClose)
			}
		}
		serr := start(0, &h0)
		if closeErr != nil {
			return fmt.Errorf("Close inside Start returned %v", closeErr)
		}
		if serr == nil {
			return exactly(&h0, 1, "Start returned nil although the client was closed before the agent registration")
		}

		return exactly(&h0, 0, fmt.Sprintf("Start returned %v", serr))
	case "response-then-close-inside-start-before-agent-registration":
		// three parties: Start has registered the transaction in the client table; the response is
		// processed (the handler runs); Close runs to completion; only then Start asks the agent, which
		// is closed by now. The handler has the outcome, so Start must not report an error on top.
		var closeErr error
		once := false
		delivered := true
		w.Agent.Before = func(op string, _ [12]byte) {
			if op == "start" && !once {
				once = true
				delivered = w.Conn.Deliver(response(0, 1, 0))
				closeErr = closeWorld(w, c.NoConnClose)
			}
		}
		serr := start(0, &h0)
		if !delivered {
			return fmt.Errorf("reader did not process the response while Start was parked before the agent registration")
		}
		if closeErr != nil {
			return fmt.Errorf("Close inside Start returned %v", closeErr)
		}
		if serr != nil {
			return exactly(&h0, 0, fmt.Sprintf("Start returned %v (response processed and client closed between the two registrations)", serr))
		}

		return exactly(&h0, 1, "Start returned nil (response processed and client closed between the two registrations)")
	case "close-between-registration-and-first-write":
		var closeErr error
		once := false
		w.Agent.After = func(op string, _ [12]byte, _ error) {
			if op == "start" && !once {
				once = true
				closeErr = closeWorld(w, c.NoConnClose)
			}
		}
		serr := start(0, &h0)
		if closeErr != nil {
			return fmt.Errorf("Close inside Start returned %v", closeErr)
		}
		if serr == nil {
			if err := exactly(&h0, 1, "Start returned nil, client closed between registration and write"); err != nil {
				return err
			}
			if h0.kind() != "closed" {
				return fmt.Errorf("handler received %q, want a closed error", h0.kind())
			}

			return nil
		}

		return exactly(&h0, 0, fmt.Sprintf("Start returned %v", serr))
	case "response-while-retransmission-write-parked", "failing-retransmission-write-racing-response":
		if err := w.Client.Start(request(0, 28), h0.handler()); err != nil {
			return err
		}
		parked, release := make(chan struct{}), make(chan struct{})
		n := 0
		w.Conn.OnWrite = func([]byte) {
			n++
			if n == 1 {
				close(parked)
				<-release
			}
		}
		fail := c.Name == "failing-retransmission-write-racing-response"
		if fail {
			w.Conn.FailWritesFor(txID(0), 1)
		}
		tickDone := make(chan struct{})
		go func() { defer close(tickDone); w.Tick(150 * time.Millisecond) }()
		select {
		case <-parked:
		case <-time.After(10 * time.Second):
			return fmt.Errorf("harness: retransmission write was not reached")
		}
		if !w.Conn.Deliver(response(0, 1, 0)) {
			return fmt.Errorf("reader did not process the response while the collector was parked in Write")
		}
		close(release)
		select {
		case <-tickDone:
		case <-time.After(30 * time.Second):
			return fmt.Errorf("collector callback did not return within 30 s")
		}
		w.Conn.OnWrite = nil
		if err := exactly(&h0, 1, "response raced a retransmission write"); err != nil {
			return err
		}
		if h0.kind() != "response" {
			return fmt.Errorf("handler received %q, want the response", h0.kind())
		}
		// the pooled transaction object must not have been released twice: two later
		// transactions must be independent
		var h1, h2 counter
		if err := w.Client.Start(request(1, 28), h1.handler()); err != nil {
			return err
		}
		if err := w.Client.Start(request(2, 28), h2.handler()); err != nil {
			return err
		}
		w.Conn.Deliver(response(1, 2, 0))
		w.Conn.Deliver(response(2, 3, 0))
		if err := exactly(&h1, 1, "transaction started after the race (id 1)"); err != nil {
			return err
		}

		return exactly(&h2, 1, "transaction started after the race (id 2)")
	case "two-closes-second-during-agent-close":
		if err := w.Client.Start(request(0, 28), h0.handler()); err != nil {
			return err
		}
		var second error
		w.Agent.Before = func(op string, _ [12]byte) {
			if op == "close" {
				second = w.Client.Close()
			}
		}
		first := closeWorld(w, c.NoConnClose)
		if first != nil || !errors.Is(second, stun.ErrClientClosed) {
			return fmt.Errorf("first Close returned %v, Close issued during it returned %v (want nil and ErrClientClosed)", first, second)
		}
		if _, closes := w.Conn.Snapshot(); (c.NoConnClose && closes != 0) || (!c.NoConnClose && closes != 1) {
			return fmt.Errorf("connection closed %d times", closes)
		}

		return exactly(&h0, 1, "transaction in flight across two Close calls")
	case "do-response-processed-before-wait":
		// the response is processed while Do is still inside its write
		w.Conn.AfterWrite = func(b []byte, err error) {
			if err == nil && len(b) >= 20 && b[19] == 0 {
				w.Conn.AfterWrite = nil
				w.Conn.Deliver(response(0, 1, 0))
			}
		}
		done := make(chan error, 1)
		go func() { done <- w.Client.Do(request(0, 28), func(e stun.Event) { h0.handler()(e) }) }()
		select {
		case err := <-done:
			if err != nil {
				return fmt.Errorf("Do returned %v", err)
			}
		case <-time.After(30 * time.Second):
			return fmt.Errorf("Do did not return although its callback ran before it started waiting (callback invocations: %d)", h0.n.Load())
		}

		return exactly(&h0, 1, "Do whose response arrived during the write")
	case "do-returns-only-after-callback-finished", "do-returns-only-after-callback-finished-early-response":
		// Do must not return while its callback is still running - also when the response is
		// dispatched before Do has started to wait
		early := c.Name != "do-returns-only-after-callback-finished"
		entered, release := make(chan struct{}), make(chan struct{})
		if early {
			w.Conn.AfterWrite = func(b []byte, err error) {
				if err == nil && len(b) >= 20 && b[19] == 0 {
					w.Conn.AfterWrite = nil
					w.Conn.Enqueue(response(0, 1, 0))
					select { // let the reader run the callback while Do is still inside its write
					case <-entered:
					case <-time.After(2 * time.Second):
					}
				}
			}
		}
		done := make(chan error, 1)
		go func() {
			done <- w.Client.Do(request(0, 28), func(e stun.Event) {
				h0.handler()(e)
				close(entered)
				<-release
			})
		}()
		if !early {
			w.Conn.WaitReaderParked(5 * time.Second)
			time.Sleep(time.Millisecond)
			w.Conn.Enqueue(response(0, 1, 0))
		}
		select {
		case <-entered:
		case err := <-done:
			close(release)

			return fmt.Errorf("Do returned %v before its callback was invoked", err)
		case <-time.After(30 * time.Second):
			close(release)

			return fmt.Errorf("callback of Do not invoked within 30 s")
		}
		select {
		case err := <-done:
			close(release)

			return fmt.Errorf("Do returned (%v) while its callback was still running", err)
		case <-time.After(30 * time.Millisecond):
		}
		close(release)
		select {
		case err := <-done:
			if err != nil {
				return fmt.Errorf("Do returned %v", err)
			}
		case <-time.After(30 * time.Second):
			return fmt.Errorf("Do did not return within 30 s after its callback finished")
		}

		return exactly(&h0, 1, "Do with a slow callback")
	case "write-error-in-start-while-closing":
		// the first write fails and Close runs before Start cleans up
		w.Conn.FailWritesFor(txID(0), 1)
		var closeErr error
		w.Conn.AfterWrite = func(_ []byte, err error) {
			if err != nil {
				w.Conn.AfterWrite = nil
				closeErr = closeWorld(w, c.NoConnClose)
			}
		}
		serr := start(0, &h0)
		if closeErr != nil {
			return fmt.Errorf("Close returned %v", closeErr)
		}
		if serr == nil {
			return exactly(&h0, 1, "Start returned nil after a failed write during Close")
		}

		return exactly(&h0, 0, fmt.Sprintf("Start returned %v", serr))
	}

	return fmt.Errorf("harness: unknown scenario %q", c.Name)
}

var gatedNames = []string{
	"close-inside-start-before-agent-registration", "response-then-close-inside-start-before-agent-registration", "close-between-registration-and-first-write",
	"response-while-retransmission-write-parked", "failing-retransmission-write-racing-response",
	"two-closes-second-during-agent-close", "do-response-processed-before-wait", "write-error-in-start-while-closing",
	"do-returns-only-after-callback-finished", "do-returns-only-after-callback-finished-early-response",
}

func TestC10_Gated(t *testing.T) {
	rec := evid.For("C10")
	c10Notes(rec)
	for _, name := range gatedNames {
		for v := 0; v < 16; v++ {
			c := gatedCase{Name: name, NoConnClose: v&1 != 0, NoRetrans: v&2 != 0 && name != "response-while-retransmission-write-parked" && name != "failing-retransmission-write-racing-response",
				UseDo: v&4 != 0, OneP: v&8 != 0}
			var err error
			if perr := pbt.Safely(func() { err = runGated(c) }); perr != nil {
				err = perr
			}
			rec.Case("gated:"+name, evid.NewH().Str(fmt.Sprint(c)).Sum(), true, func() any { return c })
			if err != nil {
				pbt.Fail(t, rec, "gated", c, "%v", err)

				return
			}
		}
	}
}
