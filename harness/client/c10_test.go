package client

import (
	"encoding/json"
	"fmt"
	"testing"
	"time"

	"github.com/pion/stun/v3/verifharness/evid"
	"github.com/pion/stun/v3/verifharness/pbt"
	"pgregory.net/rapid"
)

func histSig(c clientCase) uint64 {
	h := evid.NewH().U(uint64(c.RTO)).I(b2i(c.NoRetransmit)).I(b2i(c.Fallback)).I(b2i(c.NoConnClose))
	for _, o := range c.Ops {
		h.Str(o.Op).I(o.ID).I(o.Size).Str(o.At).U(uint64(o.RTO)).Str(o.Junk)
		if o.Re != nil {
			h.Str("re").I(o.Re.ID)
		}
	}

	return h.Sum()
}

func b2i(b bool) int {
	if b {
		return 1
	}

	return 0
}

func safeRun(c clientCase) (e *engine, err error) {
	// a history of at most a few dozen steps takes milliseconds; if it does not come back, a call into the
	// client never returned (every wait inside the engine has its own, shorter bound)
	gerr := guardDeadlock(180*time.Second, "client history", func() error {
		if perr := pbt.Safely(func() { e, err = runHistory(c) }); perr != nil {
			return perr
		}

		return err
	})

	return e, gerr
}

func c10Notes(rec *evid.Rec) {
	rec.Note("rule", "client histories run against the real Client in a controlled world (scripted connection whose reader is made synchronous with the harness, virtual clock, manual collector, delegating agent - all through public options) "+
		"and against an abstract transaction-table model in lock step. (a) exhaustive: every history up to a depth bound over {Start(id0), Start(id1), respond(id0), respond(id1), response for an unknown id, garbage datagram, "+
		"collect just before / at / just after the earliest deadline, arm a write failure for id0, Close} in two configurations (7 retransmissions, WithNoRetransmit), each followed by Close; "+
		"(b) rapid histories up to 60 steps over 3 ids with Start, Do (own goroutine), Indicate, duplicate and late responses, garbage, ticks, write failures, SetRTO, caller-side buffer reuse, Close, with and without a fallback handler. "+
		"Oracle after every step: return value class, multiset of handler invocations (transaction instance, kind response/timeout/write-error/closed, exact datagram) and multiset of written datagrams equal the model's; at the end every "+
		"successful Start/Do has exactly one invocation, every failed one none, every Do has returned (30 s watchdog), nothing is written afterwards. "+
		"Non-trivial = a history in which some transaction is ended by something other than its first response (timeout, write failure, Close while in flight, duplicate/late response); distinct by history.")
	rec.Note("assumptions", []string{"responses are only generated for ids that were written (causal connection, DESIGN D4); a datagram that happens to carry an in-flight id completes it in the model too",
		"the harness does not deliver datagrams or ticks after Close has returned",
		"concurrent schedules are sampled by TestC10_Stress (race build), not enumerated (DESIGN section 7)"})
}

var c10Alphabet = []hop{
	{Op: "start", ID: 0, Size: 28}, {Op: "start", ID: 1, Size: 2060, Re: &hop{Op: "start", ID: 1, Size: 24}},
	{Op: "respond", ID: 0}, {Op: "respond", ID: 1}, {Op: "unknown", ID: 0}, {Op: "garbage", Junk: "0001000021"},
	{Op: "tick", At: "before"}, {Op: "tick", At: "at"}, {Op: "tick", At: "after"},
	{Op: "fail", ID: 0}, {Op: "close"},
}

func TestC10_Exhaustive(t *testing.T) {
	rec := evid.For("C10")
	c10Notes(rec)
	depth := evid.Pick(4, 6)
	shard, nshards := evid.Shard()
	loc := evid.NewLocal()
	var idx int64
	failed := false
	seq := make([]hop, 0, depth)
	var walk func(d int) bool
	walk = func(d int) bool {
		if d > 0 {
			idx++
			if int(idx%int64(nshards)) == shard {
				for cfg := 0; cfg < 2; cfg++ {
					c := clientCase{RTO: int64(100 * time.Millisecond), NoRetransmit: cfg == 1, Fallback: d%2 == 0, Ops: append([]hop(nil), seq...)}
					e, err := safeRun(c)
					nt := e != nil && e.st.nonFirstResponse
					loc.Case(fmt.Sprintf("depth-%d", d), histSig(c), nt)
					if err != nil {
						pbt.Fail(t, rec, "history", c, "%v", err)
						failed = true

						return false
					}
				}
			}
		}
		if d == depth {
			return true
		}
		for _, h := range c10Alphabet {
			// prune: nothing observable happens after Close except closed-state probes, one level is enough
			if len(seq) >= 2 && seq[len(seq)-1].Op == "close" && seq[len(seq)-2].Op == "close" {
				continue
			}
			seq = append(seq, h)
			ok := walk(d + 1)
			seq = seq[:len(seq)-1]
			if !ok {
				return false
			}
		}

		return true
	}
	walk(0)
	rec.Merge(loc)
	rec.Note("exhaustive_depth", depth)
	rec.Sample("depth", clientCase{RTO: int64(100 * time.Millisecond), Ops: []hop{{Op: "start", ID: 0, Size: 28}, {Op: "tick", At: "after"}, {Op: "fail", ID: 0}, {Op: "tick", At: "after"}}})
	rec.Exhaustive(fmt.Sprintf("all histories up to depth %d over the 11-symbol alphabet x {retransmit, no-retransmit}", depth), !failed)
}

func genHop(ids int) *rapid.Generator[hop] {
	return rapid.Custom(func(rt *rapid.T) hop {
		op := rapid.SampledFrom([]string{"start", "start", "start", "do", "indicate", "respond", "respond", "respond", "unknown", "garbage", "readerr",
			"tick", "tick", "tick", "tick", "advance", "fail", "setrto", "mutate", "close"}).Draw(rt, "op")
		h := hop{Op: op}
		switch op {
		case "start", "do", "indicate":
			h.ID = rapid.IntRange(0, ids-1).Draw(rt, "id")
			h.Size = rapid.SampledFrom([]int{20, 28, 100, 1500, 1504, 2044, 2048, 2052, 3024, 9000}).Draw(rt, "size")
			if op == "start" && rapid.IntRange(0, 4).Draw(rt, "reenter") == 0 {
				// the handler starts a new transaction with the id that has just completed (another id
				// could expire in the same tick, which would make the expected result order-dependent)
				h.Re = &hop{Op: "start", ID: h.ID, Size: rapid.SampledFrom([]int{20, 24, 2052}).Draw(rt, "reSize")}
			}
			if op != "indicate" && rapid.IntRange(0, 9).Draw(rt, "refused") == 0 {
				h.Ref = rapid.IntRange(1, 7).Draw(rt, "refuseErr")
			}
		case "respond":
			h.ID = rapid.IntRange(0, ids-1).Draw(rt, "id")
			h.Size = rapid.SampledFrom([]int{0, 0, 20, 20, 64, 512, 1024}).Draw(rt, "rsize")
		case "unknown", "fail":
			h.ID = rapid.IntRange(0, ids-1).Draw(rt, "id")
		case "garbage":
			n := rapid.IntRange(0, 40).Draw(rt, "junkLen")
			h.Junk = fmt.Sprintf("%x", rapid.SliceOfN(rapid.Byte(), n, n).Draw(rt, "junk"))
		case "tick":
			h.At = rapid.SampledFrom([]string{"before", "at", "after", "after", "after", "far"}).Draw(rt, "at")
		case "advance":
			h.RTO = int64(rapid.SampledFrom([]time.Duration{1, time.Millisecond, 40 * time.Millisecond, 150 * time.Millisecond}).Draw(rt, "advanceBy"))
		case "setrto":
			h.RTO = int64(rapid.SampledFrom([]time.Duration{1, time.Millisecond, 50 * time.Millisecond, 300 * time.Millisecond, 3 * time.Second}).Draw(rt, "rto"))
		case "close":
			if rapid.IntRange(0, 3).Draw(rt, "reallyClose") != 0 {
				h = hop{Op: "tick", At: "after"}
			}
		}

		return h
	})
}

func genClientCase(rt *rapid.T, ids, maxOps int) clientCase {
	c := clientCase{
		RTO:          int64(rapid.SampledFrom([]time.Duration{1, time.Microsecond, 10 * time.Millisecond, 100 * time.Millisecond, 300 * time.Millisecond, 10 * time.Second}).Draw(rt, "rto")),
		NoRetransmit: rapid.IntRange(0, 3).Draw(rt, "noRetransmit") == 0,
		Fallback:     rapid.Bool().Draw(rt, "fallback"),
		NoConnClose:  rapid.IntRange(0, 5).Draw(rt, "noConnClose") == 0,
	}
	minOps := rapid.SampledFrom([]int{1, 5, 15, 30}).Draw(rt, "minOps")
	if minOps > maxOps {
		minOps = maxOps
	}
	c.Ops = rapid.SliceOfN(genHop(ids), minOps, maxOps).Draw(rt, "ops")

	return c
}

func TestC10_Rapid(t *testing.T) {
	rec := evid.For("C10")
	c10Notes(rec)
	pbt.Check(t, rec, "history", evid.Pick(3000, 60000), func(rt *rapid.T) (any, error) {
		c := genClientCase(rt, 3, 60)
		e, err := safeRun(c)
		rec.Case("random", histSig(c), e != nil && e.st.nonFirstResponse, func() any { return c })
		if e != nil {
			rec.Count("due_but_not_acted_on", int64(e.st.lazy))
		}

		return c, err
	})
}

func replayHistories(t *testing.T, prop string) {
	t.Helper()
	rec := evid.For(prop)
	for _, path := range evid.ReplayFiles() {
		rp, err := evid.LoadReplay(path)
		if err != nil {
			t.Fatalf("cannot load %s: %v", path, err)
		}
		if rp.Property != prop || rp.Kind != "history" {
			continue
		}
		var c clientCase
		if err := json.Unmarshal(rp.Case, &c); err != nil {
			t.Fatalf("bad replay %s: %v", path, err)
		}
		rec.Count("replays_run", 1)
		if _, err := safeRun(c); err != nil {
			rec.ReplayFailed(path, err.Error())
			t.Errorf("replay %s still fails: %v", path, err)
		}
	}
}

func TestC10_Replay(t *testing.T) {
	replayHistories(t, "C10")
	rec := evid.For("C10")
	for _, path := range evid.ReplayFiles() {
		rp, err := evid.LoadReplay(path)
		if err != nil || rp.Property != "C10" || rp.Kind != "gated" {
			continue
		}
		var c gatedCase
		if err := json.Unmarshal(rp.Case, &c); err != nil {
			t.Fatalf("bad replay %s: %v", path, err)
		}
		rec.Count("replays_run", 1)
		if err := runGated(c); err != nil {
			rec.ReplayFailed(path, err.Error())
			t.Errorf("replay %s still fails: %v", path, err)
		}
	}
}
