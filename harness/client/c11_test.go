package client

import (
	"testing"
	"time"

	"github.com/pion/stun/v3/verifharness/evid"
	"github.com/pion/stun/v3/verifharness/pbt"
	"pgregory.net/rapid"
)

func c11Notes(rec *evid.Rec) {
	rec.Note("rule", "histories focused on retransmission, run by the same lock-step engine as C10: request sizes 20..65535 (boundary classes 1500/1504, 2044/2048/2052, 3024, 9000, 65532), RTO 1 ns..10 s, 7 retransmissions or WithNoRetransmit, "+
		"the collector invoked just before / exactly at / just after each successive deadline, interleaved with responses, SetRTO calls and caller-side mutation/Reset/rebuild of the message after Start returned. "+
		"Oracle (from the write log of the scripted connection, with virtual time stamps): every write for a transaction equals byte for byte the snapshot of msg.Raw taken at Start; transmission k+1 happens only at a collect time strictly "+
		"greater than t_k+(k+1)*r with r the RTO in force at Start; at most n+1 writes; timeout only after the last deadline; no write after the terminating event; exactly one write with retransmission disabled. "+
		"Non-trivial = at least one retransmission observed and (request > 1500 bytes, or a collect exactly at a deadline, or SetRTO / buffer reuse between transmissions); distinct by history.")
	rec.Note("assumptions", []string{"the attempt limit is not configurable from outside except through WithNoRetransmit: limits 0 and 7 are exercised, intermediate ones only as 'ended early by a response'"})
}

func genC11(rt *rapid.T) clientCase {
	c := clientCase{
		RTO:          int64(rapid.SampledFrom([]time.Duration{1, 17, time.Millisecond, 100 * time.Millisecond, 300 * time.Millisecond, 10 * time.Second}).Draw(rt, "rto")),
		NoRetransmit: rapid.IntRange(0, 4).Draw(rt, "noRetransmit") == 0,
		Fallback:     rapid.Bool().Draw(rt, "fallback"),
	}
	ids := rapid.IntRange(1, 3).Draw(rt, "ids")
	for i := 0; i < ids; i++ {
		size := rapid.SampledFrom([]int{20, 24, 100, 1496, 1500, 1504, 2044, 2048, 2052, 3024, 9000, 65532}).Draw(rt, "size")
		op := rapid.SampledFrom([]string{"start", "start", "do"}).Draw(rt, "startOp")
		c.Ops = append(c.Ops, hop{Op: op, ID: i, Size: size})
	}
	n := rapid.IntRange(1, 30).Draw(rt, "nSteps")
	for i := 0; i < n; i++ {
		switch rapid.IntRange(0, 13).Draw(rt, "stepClass") {
		case 12, 13:
			// the clock moves on between two collector ticks, then a transaction is started
			frac := rapid.SampledFrom([]int64{1, 2, 4}).Draw(rt, "advanceFraction")
			c.Ops = append(c.Ops, hop{Op: "advance", RTO: c.RTO/frac + int64(rapid.IntRange(0, 1).Draw(rt, "advanceJitter"))},
				hop{Op: "start", ID: rapid.IntRange(0, ids-1).Draw(rt, "aid"), Size: rapid.SampledFrom([]int{20, 2052}).Draw(rt, "asize")})
		case 0, 1, 2, 3, 4:
			c.Ops = append(c.Ops, hop{Op: "tick", At: "after"})
		case 5:
			c.Ops = append(c.Ops, hop{Op: "tick", At: "at"})
		case 6:
			c.Ops = append(c.Ops, hop{Op: "tick", At: "before"})
		case 7:
			c.Ops = append(c.Ops, hop{Op: "mutate"})
		case 8:
			c.Ops = append(c.Ops, hop{Op: "setrto", RTO: int64(rapid.SampledFrom([]time.Duration{1, time.Millisecond, time.Second}).Draw(rt, "newRTO"))})
		case 9:
			c.Ops = append(c.Ops, hop{Op: "respond", ID: rapid.IntRange(0, ids-1).Draw(rt, "rid")})
		case 10:
			c.Ops = append(c.Ops, hop{Op: "start", ID: rapid.IntRange(0, ids-1).Draw(rt, "sid"), Size: rapid.SampledFrom([]int{20, 2052, 4000}).Draw(rt, "size2")})
		default:
			c.Ops = append(c.Ops, hop{Op: "fail", ID: rapid.IntRange(0, ids-1).Draw(rt, "fid")})
		}
	}

	return c
}

func c11Nontrivial(e *engine) bool {
	return e != nil && e.st.retransmissions > 0 && (e.st.bigRetransmit || e.st.collectAtDeadline || e.st.setRTOBetween || e.st.reuseBetween)
}

func TestC11_Rapid(t *testing.T) {
	rec := evid.For("C11")
	c11Notes(rec)
	pbt.Check(t, rec, "history", evid.Pick(8000, 60000), func(rt *rapid.T) (any, error) {
		c := genC11(rt)
		e, err := safeRun(c)
		rec.Case("retransmission", histSig(c), c11Nontrivial(e), func() any { return c })
		if e != nil {
			rec.Count("retransmissions", int64(e.st.retransmissions))
			rec.Count("due_but_not_acted_on", int64(e.st.lazy))
		}

		return c, err
	})
}

// TestC11_FullSchedule walks complete schedules: every request size class x
// both limits, ticking before, at and after each successive deadline until the
// final timeout.
func TestC11_FullSchedule(t *testing.T) {
	rec := evid.For("C11")
	c11Notes(rec)
	for _, size := range []int{20, 1500, 2048, 2052, 3024, 65532} {
		for _, noRe := range []bool{false, true} {
			for _, rto := range []time.Duration{1, 100 * time.Millisecond} {
				c := clientCase{RTO: int64(rto), NoRetransmit: noRe, Ops: []hop{{Op: "start", ID: 0, Size: size}}}
				for k := 0; k < 9; k++ {
					c.Ops = append(c.Ops, hop{Op: "tick", At: "before"}, hop{Op: "tick", At: "at"}, hop{Op: "mutate"}, hop{Op: "tick", At: "after"})
				}
				e, err := safeRun(c)
				rec.Case("full-schedule", histSig(c), c11Nontrivial(e), func() any { return c })
				if err != nil {
					pbt.Fail(t, rec, "history", c, "%v", err)

					return
				}
			}
		}
	}
}

func TestC11_Replay(t *testing.T) { replayHistories(t, "C11") }
