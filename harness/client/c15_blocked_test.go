package client

import (
	"encoding/json"
	"errors"
	"fmt"
	"sync"
	"sync/atomic"
	"testing"
	"time"

	"github.com/pion/stun/v3"
	"github.com/pion/stun/v3/verifharness/evid"
	"github.com/pion/stun/v3/verifharness/pbt"
	"github.com/pion/stun/v3/verifharness/sim"
)

// blockedCase: a Write that blocks inside the connection until the connection is closed (a full
// socket buffer, a stalled TCP peer). Close closes the connection, so it must get there: it may
// not wait for anything the blocked caller holds.
type blockedCase struct {
	Op        string `json:"op"` // start do indicate retransmit
	Others    int    `json:"others"`
	NoRetrans bool   `json:"no_retransmit,omitempty"`
}

func runBlocked(c blockedCase) error {
	w, err := sim.NewWorld(sim.Options{RTO: 100 * time.Millisecond, NoRetransmit: c.NoRetrans && c.Op != "retransmit"})
	if err != nil {
		return err
	}
	defer w.Release()
	connClosing := make(chan struct{})
	var closeOnce sync.Once
	w.Conn.OnClose = func() { closeOnce.Do(func() { close(connClosing) }) }
	parked := make(chan struct{})
	var armed atomic.Bool
	var parkOnce sync.Once
	w.Conn.OnWrite = func([]byte) {
		if !armed.Load() {
			return
		}
		block := false
		parkOnce.Do(func() { block = true })
		if block {
			close(parked)
			select {
			case <-connClosing:
			case <-time.After(60 * time.Second):
			}
		}
	}
	var h0 counter
	var others []*counter
	for i := 0; i < c.Others; i++ {
		h := &counter{}
		others = append(others, h)
		if err := w.Client.Start(request(10+i, 28), h.handler()); err != nil {
			return fmt.Errorf("harness: Start: %w", err)
		}
	}
	opDone := make(chan error, 1)
	switch c.Op {
	case "start":
		armed.Store(true)
		go func() { opDone <- w.Client.Start(request(0, 28), h0.handler()) }()
	case "do":
		armed.Store(true)
		go func() { opDone <- w.Client.Do(request(0, 28), func(e stun.Event) { h0.handler()(e) }) }()
	case "indicate":
		armed.Store(true)
		go func() { opDone <- w.Client.Indicate(request(0, 20)) }()
	case "retransmit":
		if err := w.Client.Start(request(0, 28), h0.handler()); err != nil {
			return fmt.Errorf("harness: Start: %w", err)
		}
		armed.Store(true)
		go func() { w.Tick(150 * time.Millisecond); opDone <- nil }()
	default:
		return fmt.Errorf("harness: unknown op %q", c.Op)
	}
	select {
	case <-parked:
	case <-time.After(10 * time.Second):
		closeOnce.Do(func() { close(connClosing) })

		return fmt.Errorf("harness: the write was not reached")
	}
	closed := make(chan error, 1)
	go func() { closed <- w.Client.Close() }()
	select {
	case cerr := <-closed:
		if cerr != nil {
			return fmt.Errorf("Close returned %v", cerr)
		}
	case <-time.After(30 * time.Second):
		closeOnce.Do(func() { close(connClosing) }) // let everything go

		return fmt.Errorf("deadlock: Close did not return within 30 s while a Write of %s was blocked in the connection (Close closes the connection, which ends that Write)", c.Op)
	}
	var opErr error
	select {
	case opErr = <-opDone:
	case <-time.After(30 * time.Second):
		return fmt.Errorf("%s did not return within 30 s after Close", c.Op)
	}
	if c.Op == "start" || c.Op == "do" {
		want := 1
		if opErr != nil {
			want = 0
		}
		if got := int(h0.n.Load()); got != want {
			return fmt.Errorf("%s returned %v, its handler ran %d times (want %d)", c.Op, opErr, got, want)
		}
	}
	if c.Op == "retransmit" {
		if got := int(h0.n.Load()); got != 1 {
			return fmt.Errorf("transaction whose retransmission write was blocked across Close: handler ran %d times (want 1)", got)
		}
	}
	for i, h := range others {
		// (a transaction that the parked collector tick retransmits after the connection was closed ends
		// with the error of that write)
		if got := int(h.n.Load()); got != 1 || (h.kind() != "closed" && !(c.Op == "retransmit" && h.kind() == "writeerr")) {
			return fmt.Errorf("in-flight transaction %d: handler ran %d times with %q, want once with the closed error", i, got, h.kind())
		}
	}
	if e := w.Client.Start(request(99, 28), func(stun.Event) {}); !errors.Is(e, stun.ErrClientClosed) {
		return fmt.Errorf("Start after Close returned %v", e)
	}
	if g := leakedGoroutines(); g != "" {
		return fmt.Errorf("goroutine left behind after Close:\n%s", g)
	}

	return nil
}

func TestC15_BlockedWrite(t *testing.T) {
	rec := evid.For("C15")
	c15Notes(rec)
	rec.Note("blocked_write", "Start / Do / Indicate / a retransmission whose connection Write blocks until the connection is closed, with 0..3 other transactions in flight: Close must return (it closes the connection), "+
		"the blocked call returns, handlers run exactly once, nothing leaks")
	for rep := 0; rep < evid.Pick(2, 20); rep++ {
		for _, op := range []string{"start", "do", "indicate", "retransmit"} {
			for others := 0; others <= 3; others += 1 {
				for _, nr := range []bool{false, true} {
					c := blockedCase{Op: op, Others: others, NoRetrans: nr}
					var err error
					if perr := pbt.Safely(func() { err = guardDeadlock(120*time.Second, "blocked-write scenario", func() error { return runBlocked(c) }) }); perr != nil {
						err = perr
					}
					rec.Case("blocked-write", evid.NewH().Str(fmt.Sprint(c)).Sum(), true, func() any { return c })
					if err != nil {
						pbt.Fail(t, rec, "blocked", c, "%v", err)

						return
					}
				}
			}
		}
	}
}

func TestC15_ReplayBlocked(t *testing.T) {
	rec := evid.For("C15")
	for _, path := range evid.ReplayFiles() {
		rp, err := evid.LoadReplay(path)
		if err != nil || rp.Property != "C15" || rp.Kind != "blocked" {
			continue
		}
		var c blockedCase
		if err := json.Unmarshal(rp.Case, &c); err != nil {
			t.Fatalf("bad replay %s: %v", path, err)
		}
		rec.Count("replays_run", 1)
		if err := runBlocked(c); err != nil {
			rec.ReplayFailed(path, err.Error())
			t.Errorf("replay %s still fails: %v", path, err)
		}
	}
}

// TestC15_WideClose: Close with many transactions in flight (Start and Do mixed): every handler runs
// exactly once with the closed error before Close returns, every Do returns, nothing is written afterwards.
func TestC15_WideClose(t *testing.T) {
	rec := evid.For("C15")
	c15Notes(rec)
	for _, n := range []int{1, 17, 600, evid.Pick(3000, 20000)} {
		for _, noConnClose := range []bool{false, true} {
			c := map[string]any{"in_flight": n, "no_conn_close": noConnClose}
			problem := func() string {
				w, err := sim.NewWorld(sim.Options{RTO: time.Hour, NoConnClose: noConnClose})
				if err != nil {
					return "harness: " + err.Error()
				}
				defer w.Release()
				hs := make([]counter, n)
				var afterClose atomic.Int32
				var closeReturned atomic.Bool
				var doWG sync.WaitGroup
				for i := 0; i < n; i++ {
					i := i
					h := func(e stun.Event) {
						if closeReturned.Load() {
							afterClose.Add(1)
						}
						hs[i].handler()(e)
					}
					if i%50 == 7 {
						doWG.Add(1)
						started := make(chan struct{})
						go func() {
							defer doWG.Done()
							close(started)
							_ = w.Client.Do(request(i, 28), h)
						}()
						<-started
					} else if err := w.Client.Start(request(i, 28), h); err != nil {
						return fmt.Sprintf("Start %d returned %v", i, err)
					}
				}
				// let the Do goroutines register (they write synchronously before waiting)
				for deadline := time.Now().Add(10 * time.Second); ; {
					writes, _ := w.Conn.Snapshot()
					if len(writes) >= n || time.Now().After(deadline) {
						break
					}
					time.Sleep(200 * time.Microsecond)
				}
				writesBefore, _ := w.Conn.Snapshot()
				if cerr := closeWorld(w, noConnClose); cerr != nil {
					return fmt.Sprintf("Close returned %v", cerr)
				}
				closeReturned.Store(true)
				doDone := make(chan struct{})
				go func() { doWG.Wait(); close(doDone) }()
				select {
				case <-doDone:
				case <-time.After(30 * time.Second):
					return "a Do in flight at Close did not return within 30 s"
				}
				for i := range hs {
					if got := int(hs[i].n.Load()); got != 1 || hs[i].kind() != "closed" {
						return fmt.Sprintf("transaction %d of %d in flight at Close: handler ran %d times (%s), want once with the closed error", i, n, got, hs[i].kind())
					}
				}
				if afterClose.Load() != 0 {
					return fmt.Sprintf("%d handlers were invoked after Close had returned", afterClose.Load())
				}
				if writesAfter, _ := w.Conn.Snapshot(); len(writesAfter) != len(writesBefore) {
					return fmt.Sprintf("%d writes during/after Close", len(writesAfter)-len(writesBefore))
				}
				if g := leakedGoroutines(); g != "" {
					return "goroutine left behind after Close:\n" + g
				}

				return ""
			}()
			rec.Case("wide-close", evid.NewH().I(n).Str(fmt.Sprint(noConnClose)).Sum(), n > 1, func() any { return c })
			if problem != "" {
				pbt.Fail(t, rec, "ticker", c, "%s", problem)

				return
			}
		}
	}
}
