// Package pbt glues rapid to the evidence recorder: it runs a property under
// rapid.Check, remembers the last failing case (rapid re-runs the minimal
// example last, so that is the shrunk one) and writes it as a replay file.
package pbt

import (
	"flag"
	"fmt"
	"os"
	"runtime/debug"
	"testing"

	"github.com/pion/stun/v3/verifharness/evid"
	"pgregory.net/rapid"
)

// Prop generates one case from rt, runs it and returns the case (JSON
// serialisable, sufficient for replay) and a non-nil error on violation.
type Prop func(rt *rapid.T) (c any, err error)

// rapidSeed derives a non-zero rapid seed from VERIF_SEED, the shard and the
// check name, so every run is a pure function of the code and VERIF_SEED.
func rapidSeed(kind string) uint64 {
	i, _ := evid.Shard()
	s := evid.NewH().U(evid.Seed()).I(i).Str(kind).Sum()
	if s == 0 {
		s = 1
	}

	return s
}

// Check runs prop under rapid for n cases. It returns false if a violation
// was found.
func Check(t *testing.T, rec *evid.Rec, kind string, n int, prop Prop) bool {
	t.Helper()
	_ = os.RemoveAll("testdata/rapid")
	_ = flag.Set("rapid.checks", fmt.Sprint(n))
	_ = flag.Set("rapid.seed", fmt.Sprint(rapidSeed(kind)))
	_ = flag.Set("rapid.nofailfile", "true")
	var (
		last    any
		lastMsg string
		failed  bool
	)
	t.Run(kind, func(t *testing.T) {
		rapid.Check(t, func(rt *rapid.T) {
			c, err := prop(rt)
			if err != nil {
				last, lastMsg, failed = c, err.Error(), true
				rt.Fatalf("%s/%s: %v", "violation", kind, err)
			}
		})
	})
	_ = os.RemoveAll("testdata/rapid")
	if failed {
		p := rec.Violation(kind, last, lastMsg)
		t.Logf("violation recorded: %s", p)

		return false
	}

	return true
}

// Fail records a violation found outside rapid (enumerators, watchdogs).
func Fail(t *testing.T, rec *evid.Rec, kind string, c any, format string, args ...any) {
	t.Helper()
	msg := fmt.Sprintf(format, args...)
	p := rec.Violation(kind, c, msg)
	t.Errorf("violation %s: %s (replay %s)", kind, msg, p)
}

// Safely runs f and converts a panic into an error carrying the stack.
func Safely(f func()) (err error) {
	defer func() {
		if r := recover(); r != nil {
			err = fmt.Errorf("panic: %v\n%s", r, debug.Stack())
		}
	}()
	f()

	return nil
}

// Main is the TestMain body shared by all harness packages.
func Main(m *testing.M) {
	code := m.Run()
	evid.Flush()
	os.Exit(code)
}
