package uri

import (
	"runtime/debug"
	"testing"

	"github.com/pion/stun/v3/verifharness/evid"
)

var uriSeeds = []string{"", "stun:", "stun:example.org", "stuns:example.org:5349", "turn:[::1]:3478?transport=tcp", "turns:a?transport=udp",
	"stun:[a]b", "stun:[]%", "turn:host:99999", "turn:host:-1", "stun:host?x=1", "STUN:h", "turns:[fe80::1%25eth0]", "stun:a:b:c", "turn:h?transport=udp&transport=tcp"}

// FuzzParseURISafe (C16): coverage-guided search over strings. The worker process caps its
// stack at 1 MiB, so unbounded recursion kills the worker quickly and the fuzzer records the input.
func FuzzParseURISafe(f *testing.F) {
	for _, s := range uriSeeds {
		f.Add(s)
	}
	rec := evid.For("C16")
	f.Fuzz(func(t *testing.T, s string) {
		debug.SetMaxStack(1 << 20)
		if len(s) > 1<<16 {
			return
		}
		if st := parseOne(s); st == 'P' {
			rec.Violation("parse", c16Case{Input: s}, "ParseURI panicked")
			t.Fatalf("C16: ParseURI(%q) panicked", s)
		}
	})
}

// FuzzParseURIInvariant (C17): every accepted URI satisfies the generic invariant and round-trips.
func FuzzParseURIInvariant(f *testing.F) {
	for _, s := range uriSeeds {
		f.Add(s)
	}
	rec := evid.For("C17")
	f.Fuzz(func(t *testing.T, s string) {
		debug.SetMaxStack(1 << 20)
		if len(s) > 1<<12 || parseOne(s) != 'U' {
			return
		}
		c := c17Parse{Raw: s}
		if err := runC17Parse(c); err != nil {
			rec.Violation("parse", c, err.Error())
			t.Fatalf("C17: %v", err)
		}
	})
}
