package uri

import (
	"bytes"
	"encoding/json"
	"errors"
	"fmt"
	"io"
	"net"
	"reflect"
	"strconv"
	"strings"
	"sync"
	"testing"
	"time"

	"github.com/pion/stun/v3"
	"github.com/pion/stun/v3/verifharness/evid"
	"github.com/pion/stun/v3/verifharness/pbt"
	"github.com/pion/transport/v3"
	"pgregory.net/rapid"
)

// ---- ParseURI: URIs built from components -------------------------------------

type uriParts struct {
	Scheme  string `json:"scheme"`
	Host    string `json:"host"` // as written (IPv6 in brackets)
	Port    string `json:"port"` // "" = absent, otherwise the text after ':'
	HasPort bool   `json:"has_port"`
	Query   string `json:"query"` // "" = absent, otherwise text after '?'
	HasQ    bool   `json:"has_q"`
}

func (p uriParts) String() string {
	s := p.Scheme + ":" + p.Host
	if p.HasPort {
		s += ":" + p.Port
	}
	if p.HasQ {
		s += "?" + p.Query
	}

	return s
}

// verdict of the reference: "accept", "reject" or "either" (statement silent).
type expectURI struct {
	checkProto bool // verdict "either", but an accepted URI must carry this transport
	verdict    string
	scheme     stun.SchemeType
	host       string
	port       int
	proto      stun.ProtoType
}

func refURI(p uriParts) expectURI {
	e := expectURI{verdict: "accept"}
	switch p.Scheme {
	case "stun":
		e.scheme, e.port, e.proto = stun.SchemeTypeSTUN, 3478, stun.ProtoTypeUDP
	case "stuns":
		e.scheme, e.port, e.proto = stun.SchemeTypeSTUNS, 5349, stun.ProtoTypeTCP
	case "turn":
		e.scheme, e.port, e.proto = stun.SchemeTypeTURN, 3478, stun.ProtoTypeUDP
	case "turns":
		e.scheme, e.port, e.proto = stun.SchemeTypeTURNS, 5349, stun.ProtoTypeTCP
	default:
		if l := strings.ToLower(p.Scheme); l != p.Scheme && (l == "stun" || l == "stuns" || l == "turn" || l == "turns") {
			return expectURI{verdict: "either"} // upper-case spelling of a known scheme: statement silent
		}

		return expectURI{verdict: "reject"}
	}
	e.host = strings.TrimSuffix(strings.TrimPrefix(p.Host, "["), "]")
	if e.host == "" {
		return expectURI{verdict: "reject"}
	}
	if p.HasPort {
		switch {
		case p.Port == "" || strings.HasPrefix(p.Port, "+"):
			e.verdict = "either" // empty or explicitly signed port: statement silent
		default:
			n, err := strconv.Atoi(p.Port)
			if err != nil || n < 0 || n > 65535 || strings.HasPrefix(p.Port, "-") {
				return expectURI{verdict: "reject"}
			}
			e.port = n
		}
		if e.verdict == "either" {
			if n, err := strconv.Atoi(p.Port); err == nil {
				e.port = n
			}
		}
	}
	if p.HasQ {
		secure := p.Scheme == "stuns" || p.Scheme == "stun"
		switch {
		case p.Query == "":
			if e.verdict == "accept" {
				e.verdict = "either" // bare '?': empty query, statement silent
			}
		case secure:
			return expectURI{verdict: "reject"} // stun/stuns with a query
		case p.Query == "transport=udp":
			e.proto = stun.ProtoTypeUDP
		case p.Query == "transport=tcp":
			e.proto = stun.ProtoTypeTCP
		case p.Query == "transport=" || p.Query == "transport=udp&transport=tcp" || p.Query == "transport=tcp&transport=udp":
			return expectURI{verdict: "either"} // empty value / repeated key: statement silent
		case strings.EqualFold(p.Query, "transport=udp") || strings.EqualFold(p.Query, "transport=tcp"):
			// other spellings of a known transport (ABNF literals are case-insensitive): statement silent,
			// but if accepted the transport must be the one named
			e.verdict = "either"
			e.proto = stun.ProtoTypeUDP
			if strings.EqualFold(p.Query, "transport=tcp") {
				e.proto = stun.ProtoTypeTCP
			}
			e.checkProto = true
		default:
			return expectURI{verdict: "reject"} // unknown transport, extra or other keys
		}
	}

	return e
}

// generic invariant of every accepted URI, whatever string produced it.
func genericInvariant(u *stun.URI) error {
	if u.Scheme != stun.SchemeTypeSTUN && u.Scheme != stun.SchemeTypeSTUNS && u.Scheme != stun.SchemeTypeTURN && u.Scheme != stun.SchemeTypeTURNS {
		return fmt.Errorf("accepted URI has scheme %v", u.Scheme)
	}
	if u.Host == "" {
		return fmt.Errorf("accepted URI has an empty host")
	}
	if u.Port < 0 || u.Port > 65535 {
		return fmt.Errorf("accepted URI has port %d", u.Port)
	}
	if u.Proto != stun.ProtoTypeUDP && u.Proto != stun.ProtoTypeTCP {
		return fmt.Errorf("accepted URI has transport %v", u.Proto)
	}
	if (u.Scheme == stun.SchemeTypeSTUN && u.Proto != stun.ProtoTypeUDP) || (u.Scheme == stun.SchemeTypeSTUNS && u.Proto != stun.ProtoTypeTCP) {
		return fmt.Errorf("accepted %v URI has transport %v", u.Scheme, u.Proto)
	}
	back, err := stun.ParseURI(u.String())
	if err != nil {
		return fmt.Errorf("formatting gives %q which does not parse: %v", u.String(), err)
	}
	if !reflect.DeepEqual(back, u) {
		return fmt.Errorf("round trip: %+v -> %q -> %+v", *u, u.String(), *back)
	}

	return nil
}

type c17Parse struct {
	Parts *uriParts `json:"parts,omitempty"`
	Raw   string    `json:"raw,omitempty"` // mutated string (generic invariant only)
}

// parseURI parses s; when that succeeds it scribbles over the returned value and parses s again: ParseURI
// is a function of the string - what a caller did to an earlier result must not show in a later one.
func parseURI(s string) (*stun.URI, error) {
	u1, err := stun.ParseURI(s)
	if err != nil {
		return nil, err
	}
	snap := *u1
	u1.Scheme, u1.Host, u1.Port, u1.Proto = stun.SchemeTypeUnknown, "scribbled.invalid", -7, stun.ProtoTypeUnknown
	u2, err2 := stun.ParseURI(s)
	if err2 != nil {
		return nil, fmt.Errorf("harness-detected: ParseURI(%q) succeeded, and failed (%v) when called again after the caller modified the first result", s, err2) //nolint:goerr113
	}
	if *u2 != snap {
		return nil, fmt.Errorf("harness-detected: ParseURI(%q) returned %+v, and %+v when called again after the caller modified the first result", s, snap, *u2) //nolint:goerr113
	}

	return u2, nil
}

func runC17Parse(c c17Parse) error {
	if c.Parts == nil {
		var u *stun.URI
		var err error
		if perr := pbt.Safely(func() { u, err = parseURI(c.Raw) }); perr != nil {
			return perr
		}
		if err != nil {
			if strings.HasPrefix(err.Error(), "harness-detected: ") {
				return errors.New(strings.TrimPrefix(err.Error(), "harness-detected: ")) //nolint:goerr113
			}

			return nil
		}

		return genericInvariant(u)
	}
	s := c.Parts.String()
	want := refURI(*c.Parts)
	var u *stun.URI
	var err error
	if perr := pbt.Safely(func() { u, err = parseURI(s) }); perr != nil {
		return perr
	}
	if err != nil && strings.HasPrefix(err.Error(), "harness-detected: ") {
		return errors.New(strings.TrimPrefix(err.Error(), "harness-detected: ")) //nolint:goerr113
	}
	switch want.verdict {
	case "reject":
		if err == nil {
			return fmt.Errorf("ParseURI(%q) accepted %+v; must be rejected", s, *u)
		}

		return nil
	case "accept":
		if err != nil {
			return fmt.Errorf("ParseURI(%q) rejected a valid URI: %v", s, err)
		}
		if u.Scheme != want.scheme || u.Host != want.host || u.Port != want.port || u.Proto != want.proto {
			return fmt.Errorf("ParseURI(%q) = {scheme %v host %q port %d transport %v}, want {scheme %v host %q port %d transport %v}",
				s, u.Scheme, u.Host, u.Port, u.Proto, want.scheme, want.host, want.port, want.proto)
		}
	}
	if err != nil {
		return nil
	}
	if want.checkProto && u.Proto != want.proto {
		return fmt.Errorf("ParseURI(%q) accepted the URI with transport %v, the query names %v", s, u.Proto, want.proto)
	}

	return genericInvariant(u)
}

var (
	c17Schemes = []string{"stun", "stuns", "turn", "turns", "STUN", "Turns", "http", "stunx", "tur", ""}
	c17Hosts   = []string{"example.org", "a", "localhost", "xn--bcher-kva.example", "1.2.3.4", "255.255.255.255", "[::1]", "[2001:db8::1]", "[::ffff:1.2.3.4]", "[fe80::1%25eth0]", "", "[]"}
	c17Ports   = []string{"", "0", "1", "3478", "5349", "65535", "65536", "99999", "-1", "+5", "x", "08", "4294967296", "18446744073709551617"}
	c17Queries = []string{"", "transport=udp", "transport=tcp", "transport=sctp", "transport=UDP", "transport=", "transport=udp&transport=tcp", "transport=udp&x=1", "x=1", "x=1&transport=tcp", "transport"}
)

func c17Notes(rec *evid.Rec) {
	rec.Note("rule", "ParseURI: URIs built from components - scheme {stun, stuns, turn, turns, upper-case spellings, unknown words, empty} x host {reg-names, IPv4, bracketed IPv6 incl. IPv4-mapped and zone, empty} x "+
		"port {absent, 0, 1, 3478, 5349, 65535, 65536, 99999, -1, +5, empty, non-numeric, leading zero, > 2^32, > 2^64} x query {absent, bare ?, transport=udp|tcp, unknown transport, upper-case value, empty value, repeated key, extra key, other key, bare key} "+
		"(the full product is enumerated), plus rapid mutations of such strings. Oracle by construction: accept iff the components are valid, fields equal the expected ones (defaults 3478/5349, UDP/TCP); where the statement is silent "+
		"(signed or empty port, bare ?, empty or repeated transport, upper-case scheme) either outcome is allowed; every accepted URI, however produced, satisfies: known scheme, non-empty host, 0 <= port <= 65535, transport UDP/TCP, ParseURI(u.String()) deep-equals u. "+
		"DialURI: every accepted URI and all 5x3 hand-made scheme/transport combinations are dialled through an injected transport.Net with in-memory connections: the (network, address) requested equals the one denoted; "+
		"for secure schemes the first bytes on the wire are a TLS (tcp) / DTLS (udp) handshake record carrying the host as server name and the plaintext request sent through the returned client never appears on the wire; "+
		"hand-made secure combinations are either ErrUnsupportedURI or wrapped. Non-trivial = IPv6 host, explicit boundary port or a query (parse); secure scheme (dial). Distinct by URI.")
	rec.Note("assumptions", []string{"host names are resolved by the injected network (the fake resolves IP literals, localhost and maps every other name to 192.0.2.53)", "server-name checks apply to reg-name hosts (TLS/DTLS omit SNI for IP literals)"})
}

func TestC17_ParseProduct(t *testing.T) {
	rec := evid.For("C17")
	c17Notes(rec)
	for _, sc := range c17Schemes {
		for _, h := range c17Hosts {
			for pi, po := range c17Ports {
				for qi, q := range c17Queries {
					for _, bare := range []bool{false, true} {
						p := uriParts{Scheme: sc, Host: h, Port: po, HasPort: pi > 0, Query: q, HasQ: qi > 0}
						if bare { // "host:" and "host?" forms
							if pi > 0 || qi > 0 {
								continue
							}
							p.HasPort, p.HasQ = true, true
						}
						c := c17Parse{Parts: &p}
						nt := strings.HasPrefix(h, "[") || pi > 0 || qi > 0
						rec.Case("product", evid.NewH().Str(p.String()).Sum(), nt, func() any { return c })
						if err := runC17Parse(c); err != nil {
							pbt.Fail(t, rec, "parse", c, "%v", err)

							return
						}
					}
				}
			}
		}
	}
	rec.Exhaustive("product of the listed scheme x host x port x query components", true)
}

func TestC17_ParseRapid(t *testing.T) {
	rec := evid.For("C17")
	c17Notes(rec)
	pbt.Check(t, rec, "parse", evid.Pick(60000, 500000), func(rt *rapid.T) (any, error) {
		var c c17Parse
		if rapid.Bool().Draw(rt, "fromParts") {
			p := uriParts{
				Scheme: rapid.SampledFrom(c17Schemes).Draw(rt, "scheme"),
				Host: rapid.OneOf(rapid.SampledFrom(c17Hosts), rapid.StringMatching(`[a-z0-9][a-z0-9.-]{0,20}`), rapid.Custom(func(t *rapid.T) string {
					return "[" + net.IP(rapid.SliceOfN(rapid.Byte(), 16, 16).Draw(t, "ip6")).String() + "]"
				})).Draw(rt, "host"),
			}
			if rapid.Bool().Draw(rt, "hasPort") {
				p.HasPort = true
				p.Port = rapid.OneOf(rapid.SampledFrom(c17Ports[1:]), rapid.Custom(func(t *rapid.T) string { return strconv.Itoa(rapid.IntRange(-70000, 140000).Draw(t, "n")) })).Draw(rt, "port")
			}
			if rapid.IntRange(0, 2).Draw(rt, "hasQ") == 0 {
				p.HasQ = true
				p.Query = rapid.SampledFrom(c17Queries).Draw(rt, "query")
			}
			if strings.ContainsAny(p.Host, "?#/") {
				p.Host = "example.org"
			}
			c.Parts = &p
		} else {
			c.Raw = genURIString(rt)
			if len(c.Raw) > 4096 {
				c.Raw = c.Raw[:4096]
			}
		}
		s := c.Raw
		if c.Parts != nil {
			s = c.Parts.String()
		}
		nt := strings.Contains(s, "[") || strings.Contains(s, "?") || strings.Count(s, ":") > 1
		rec.Case(ifThen(c.Parts != nil, "components", "mutated"), evid.NewH().Str(s).Sum(), nt, func() any { return c })

		return c, runC17Parse(c)
	})
}

func ifThen(c bool, a, b string) string {
	if c {
		return a
	}

	return b
}

// ---- DialURI with an injected network ----------------------------------------------

// memConn is an in-memory connection: writes are recorded, reads block until Close.
type memConn struct {
	mu      sync.Mutex
	written bytes.Buffer
	closed  chan struct{}
	once    sync.Once
	raddr   net.Addr
}

func newMemConn(raddr net.Addr) *memConn { return &memConn{closed: make(chan struct{}), raddr: raddr} }

func (c *memConn) Read(_ []byte) (int, error) {
	<-c.closed

	return 0, io.EOF
}

func (c *memConn) Write(p []byte) (int, error) {
	select {
	case <-c.closed:
		return 0, io.ErrClosedPipe
	default:
	}
	c.mu.Lock()
	c.written.Write(p)
	c.mu.Unlock()

	return len(p), nil
}

func (c *memConn) Close() error                     { c.once.Do(func() { close(c.closed) }); return nil }
func (c *memConn) LocalAddr() net.Addr              { return &net.UDPAddr{IP: net.IPv4(127, 0, 0, 1), Port: 1} }
func (c *memConn) RemoteAddr() net.Addr             { return c.raddr }
func (c *memConn) SetDeadline(time.Time) error      { return nil }
func (c *memConn) SetReadDeadline(time.Time) error  { return nil }
func (c *memConn) SetWriteDeadline(time.Time) error { return nil }
func (c *memConn) SetReadBuffer(int) error          { return nil }
func (c *memConn) SetWriteBuffer(int) error         { return nil }
func (c *memConn) ReadFrom(p []byte) (int, net.Addr, error) {
	n, err := c.Read(p)

	return n, c.raddr, err
}
func (c *memConn) ReadFromUDP(p []byte) (int, *net.UDPAddr, error) {
	n, err := c.Read(p)
	ua, _ := c.raddr.(*net.UDPAddr)

	return n, ua, err
}
func (c *memConn) ReadMsgUDP(p, _ []byte) (int, int, int, *net.UDPAddr, error) {
	n, err := c.Read(p)
	ua, _ := c.raddr.(*net.UDPAddr)

	return n, 0, 0, ua, err
}
func (c *memConn) WriteTo(p []byte, _ net.Addr) (int, error)        { return c.Write(p) }
func (c *memConn) WriteToUDP(p []byte, _ *net.UDPAddr) (int, error) { return c.Write(p) }
func (c *memConn) WriteMsgUDP(p, _ []byte, _ *net.UDPAddr) (int, int, error) {
	n, err := c.Write(p)

	return n, 0, err
}

func (c *memConn) bytes() []byte {
	c.mu.Lock()
	defer c.mu.Unlock()

	return append([]byte(nil), c.written.Bytes()...)
}

// fakeNet records what DialURI asks for. Unimplemented methods of the embedded
// nil interface panic, which the check reports as an unexpected request.
type fakeNet struct {
	transport.Net
	mu    sync.Mutex
	dials []string // "network address"
	conns []*memConn
}

func (f *fakeNet) Dial(network, address string) (net.Conn, error) {
	c := newMemConn(&net.TCPAddr{IP: net.IPv4(192, 0, 2, 1), Port: 9})
	f.mu.Lock()
	f.dials = append(f.dials, network+" "+address)
	f.conns = append(f.conns, c)
	f.mu.Unlock()

	return c, nil
}

func (f *fakeNet) DialUDP(network string, _, raddr *net.UDPAddr) (transport.UDPConn, error) {
	c := newMemConn(raddr)
	f.mu.Lock()
	f.dials = append(f.dials, "dialudp:"+network+" "+raddr.String())
	f.conns = append(f.conns, c)
	f.mu.Unlock()

	return c, nil
}

// ResolveUDPAddr is the injected network's resolver: IP literals and "localhost" as usual, every other
// name resolves to 192.0.2.53 - names only the injected network knows (nothing else resolves offline).
func (f *fakeNet) ResolveUDPAddr(_, address string) (*net.UDPAddr, error) {
	return fakeResolve(address)
}

func fakeResolve(address string) (*net.UDPAddr, error) {
	host, port, err := net.SplitHostPort(address)
	if err != nil {
		return nil, err
	}
	p, err := strconv.Atoi(port)
	if err != nil {
		return nil, err
	}
	zone := ""
	if i := strings.IndexByte(host, '%'); i >= 0 {
		host, zone = host[:i], host[i+1:]
	}
	ip := net.ParseIP(host)
	switch {
	case ip != nil:
	case host == "localhost":
		ip = net.IPv4(127, 0, 0, 1)
	default:
		ip = net.IPv4(192, 0, 2, 53)
	}

	return &net.UDPAddr{IP: ip, Port: p, Zone: zone}, nil
}

type c17Dial struct {
	Scheme int    `json:"scheme"`
	Proto  int    `json:"proto"`
	Host   string `json:"host"`
	Port   int    `json:"port"`
	Parsed bool   `json:"parsed"` // produced by ParseURI (expected pair is asserted) vs hand-made
}

// sharedDialConfig is reused by every dial of the process, as an application would reuse its
// DialConfig for several servers: the server name of one dial must not leak into the next.
var sharedDialConfig = func() *stun.DialConfig {
	cfg := &stun.DialConfig{}
	cfg.DTLSConfig.InsecureSkipVerify = true
	cfg.TLSConfig.InsecureSkipVerify = true //nolint:gosec

	return cfg
}()

func runC17Dial(c c17Dial) error {
	u := &stun.URI{Scheme: stun.SchemeType(c.Scheme), Proto: stun.ProtoType(c.Proto), Host: c.Host, Port: c.Port}
	fn := &fakeNet{}
	cfg := sharedDialConfig
	cfg.Net = fn
	var cl *stun.Client
	var err error
	if perr := pbt.Safely(func() { cl, err = stun.DialURI(u, cfg) }); perr != nil {
		return perr
	}
	secure := u.Scheme == stun.SchemeTypeSTUNS || u.Scheme == stun.SchemeTypeTURNS
	addr := net.JoinHostPort(c.Host, strconv.Itoa(c.Port))
	if err != nil {
		for _, mc := range fn.conns {
			_ = mc.Close()
		}
		if c.Parsed {
			return fmt.Errorf("DialURI(%v) failed for a URI that ParseURI produces: %v", u, err)
		}
		if secure && !errors.Is(err, stun.ErrUnsupportedURI) && len(fn.dials) > 0 {
			return fmt.Errorf("DialURI(%+v) dialled %v and then failed with %v", *u, fn.dials, err)
		}

		return nil
	}
	// send a request through the client, then close it and look at the wire
	req := stun.MustBuild(stun.TransactionID, stun.BindingRequest, stun.NewSoftware("plaintext-marker-1234567890"))
	sent := make(chan struct{})
	go func() { defer close(sent); _ = cl.Indicate(req) }()
	time.Sleep(3 * time.Millisecond)
	var wire []byte
	if len(fn.conns) > 0 {
		// give the handshake writer a moment: it runs on the client's reader goroutine
		for i := 0; i < 200 && len(fn.conns[0].bytes()) == 0; i++ {
			time.Sleep(time.Millisecond)
		}
		wire = fn.conns[0].bytes()
	}
	_ = cl.Close()
	for _, mc := range fn.conns {
		_ = mc.Close()
	}
	select {
	case <-sent:
	case <-time.After(30 * time.Second):
		return fmt.Errorf("Indicate through the dialled client did not return after Close")
	}
	if len(fn.dials) != 1 {
		return fmt.Errorf("DialURI(%v) made %d dial requests: %v", u, len(fn.dials), fn.dials)
	}
	wantNet := "udp"
	if u.Proto == stun.ProtoTypeTCP && u.Scheme != stun.SchemeTypeSTUN {
		wantNet = "tcp"
	}
	got := fn.dials[0]
	plain := bytes.Contains(wire, []byte("plaintext-marker-1234567890")) || bytes.Contains(wire, req.Raw[:20])
	switch {
	case !secure:
		if c.Parsed || u.Scheme == stun.SchemeTypeTURN {
			if got != wantNet+" "+addr {
				return fmt.Errorf("DialURI(%v) dialled %q, the URI denotes %q", u, got, wantNet+" "+addr)
			}
			if !plain {
				return fmt.Errorf("DialURI(%v): request not found on the plain connection", u)
			}
		}
	default:
		if plain {
			return fmt.Errorf("DialURI(%v) sent the request in plaintext over %q", u, got)
		}
		if len(wire) < 3 || wire[0] != 0x16 {
			return fmt.Errorf("DialURI(%v): first bytes on the wire are %x, not a TLS/DTLS handshake record", u, wire[:min(len(wire), 8)])
		}
		if u.Proto == stun.ProtoTypeUDP {
			if !strings.HasPrefix(got, "dialudp:udp ") || wire[1] != 0xFE {
				return fmt.Errorf("DialURI(%v) over UDP: requested %q, record version %x (want DTLS over UDP)", u, got, wire[1:3])
			}
			// the address the INJECTED network resolves the host to
			ra, rerr := fakeResolve(addr)
			if rerr == nil && got != "dialudp:udp "+ra.String() {
				return fmt.Errorf("DialURI(%v) dialled %q, the URI denotes %q", u, got, ra.String())
			}
		} else {
			if got != "tcp "+addr || wire[1] != 0x03 {
				return fmt.Errorf("DialURI(%v) over TCP: requested %q, record version %x (want TLS over tcp %s)", u, got, wire[1:3], addr)
			}
		}
		if net.ParseIP(c.Host) == nil && !bytes.Contains(wire, []byte(c.Host)) {
			return fmt.Errorf("DialURI(%v): ClientHello does not carry the host %q as server name", u, c.Host)
		}
	}

	return nil
}

func TestC17_Dial(t *testing.T) {
	rec := evid.For("C17")
	c17Notes(rec)
	hosts := []string{"localhost", "127.0.0.1", "::1", "192.0.2.7", "2001:db8::5"}
	regNames := []string{"example.org", "turn.example.net", "a-b.c"}
	run := func(c c17Dial) bool {
		secure := c.Scheme == int(stun.SchemeTypeSTUNS) || c.Scheme == int(stun.SchemeTypeTURNS)
		rec.Case(ifThen(c.Parsed, "dial-parsed", "dial-handmade"), evid.NewH().Str(fmt.Sprint(c)).Sum(), secure, func() any { return c })
		if err := runC17Dial(c); err != nil {
			pbt.Fail(t, rec, "dial", c, "%v", err)

			return false
		}

		return true
	}
	// every URI ParseURI can produce: 4 schemes x transports x hosts x ports
	for _, sc := range []string{"stun", "stuns", "turn", "turns"} {
		for _, q := range []string{"", "?transport=udp", "?transport=tcp"} {
			hs := append([]string(nil), hosts...)
			for _, port := range []string{"", ":0", ":3478", ":65535"} {
				// reg-names too on every path: with an injected network it is that network which resolves them
				all := append(append([]string(nil), hs...), regNames...)
				for _, h := range all {
					hw := h
					if strings.Contains(h, ":") {
						hw = "[" + h + "]"
					}
					u, err := stun.ParseURI(sc + ":" + hw + port + q)
					if err != nil {
						continue // stun/stuns with a query
					}
					if !run(c17Dial{Scheme: int(u.Scheme), Proto: int(u.Proto), Host: u.Host, Port: u.Port, Parsed: true}) {
						return
					}
				}
			}
		}
	}
	// all 5 x 3 hand-made combinations
	for sc := 0; sc <= 4; sc++ {
		for pr := 0; pr <= 2; pr++ {
			for _, h := range []string{"localhost", "127.0.0.1", "example.org"} {
				if !run(c17Dial{Scheme: sc, Proto: pr, Host: h, Port: 5349}) {
					return
				}
			}
		}
	}
	rec.Exhaustive("all 5x3 hand-made scheme/transport combinations for DialURI", true)
}

func TestC17_Replay(t *testing.T) {
	rec := evid.For("C17")
	for _, path := range evid.ReplayFiles() {
		rp, err := evid.LoadReplay(path)
		if err != nil {
			t.Fatalf("cannot load %s: %v", path, err)
		}
		if rp.Property != "C17" {
			continue
		}
		rec.Count("replays_run", 1)
		var rerr error
		switch rp.Kind {
		case "parse":
			var c c17Parse
			if err := json.Unmarshal(rp.Case, &c); err != nil {
				t.Fatalf("bad replay: %v", err)
			}
			rerr = runC17Parse(c)
		case "dial":
			var c c17Dial
			if err := json.Unmarshal(rp.Case, &c); err != nil {
				t.Fatalf("bad replay: %v", err)
			}
			rerr = runC17Dial(c)
		}
		if rerr != nil {
			rec.ReplayFailed(path, rerr.Error())
			t.Errorf("replay %s still fails: %v", path, rerr)
		}
	}
}

// TestC17_ParseExhaustive applies the generic invariant (known scheme, non-empty host, port
// range, transport, format/parse round trip) to EVERY string over the 20-symbol alphabet of
// C16 up to a length bound after each scheme prefix.
func TestC17_ParseExhaustive(t *testing.T) {
	rec := evid.For("C17")
	c17Notes(rec)
	maxLen := evid.Pick(4, 5)
	shard, nshards := evid.Shard()
	loc := evid.NewLocal()
	var idx int64
	var failed bool
	var walk func(s string, depth int) bool
	walk = func(s string, depth int) bool {
		idx++
		if int(idx%int64(nshards)) == shard {
			c := c17Parse{Raw: s}
			u, err := parseURI(s)
			loc.Case("exhaustive", evid.NewH().Str(s).Sum(), err == nil)
			if err != nil && strings.HasPrefix(err.Error(), "harness-detected: ") {
				pbt.Fail(t, rec, "parse", c, "%s", strings.TrimPrefix(err.Error(), "harness-detected: "))
				failed = true

				return false
			}
			if err == nil {
				if ierr := genericInvariant(u); ierr != nil {
					pbt.Fail(t, rec, "parse", c, "ParseURI(%q) accepted %+v: %v", s, *u, ierr)
					failed = true

					return false
				}
			}
		}
		if depth == maxLen {
			return true
		}
		for _, a := range c16Alphabet {
			if !walk(s+a, depth+1) {
				return false
			}
		}

		return true
	}
	for _, p := range c16Prefixes[:4] {
		if !walk(p, 0) {
			break
		}
	}
	rec.Merge(loc)
	rec.Note("exhaustive_max_suffix_length", maxLen)
	rec.Exhaustive(fmt.Sprintf("generic invariant on all strings over the 20-symbol alphabet up to length %d after each scheme", maxLen), !failed)
}
