package uri

import (
	"bufio"
	"encoding/binary"
	"encoding/json"
	"fmt"
	"io"
	"os"
	"os/exec"
	"strings"
	"sync"
	"testing"
	"time"

	"github.com/pion/stun/v3/verifharness/evid"
	"github.com/pion/stun/v3/verifharness/pbt"
	"pgregory.net/rapid"
)

// worker is one supervised child process.
type worker struct {
	cmd    *exec.Cmd
	in     io.WriteCloser
	out    *bufio.Reader
	stderr *tailBuf
}

type tailBuf struct {
	mu sync.Mutex
	b  []byte
}

func (t *tailBuf) Write(p []byte) (int, error) {
	t.mu.Lock()
	if len(t.b) < 1024 { // keep the head: the fatal error line comes first
		t.b = append(t.b, p...)
	}
	t.mu.Unlock()

	return len(p), nil
}

func (t *tailBuf) String() string {
	t.mu.Lock()
	defer t.mu.Unlock()
	s := string(t.b)
	if i := strings.Index(s, "\n\n"); i > 0 && i < 600 {
		s = s[:i]
	}
	if len(s) > 600 {
		s = s[:600]
	}

	return s
}

func startWorker() (*worker, error) {
	cmd := exec.Command(os.Args[0], "-test.run", "^$") //nolint:gosec
	cmd.Env = append(os.Environ(), "VERIF_C16_CHILD=1", "VERIF_STATS_OUT=")
	in, err := cmd.StdinPipe()
	if err != nil {
		return nil, err
	}
	out, err := cmd.StdoutPipe()
	if err != nil {
		return nil, err
	}
	w := &worker{cmd: cmd, in: in, out: bufio.NewReader(out), stderr: &tailBuf{}}
	cmd.Stderr = w.stderr
	if err := cmd.Start(); err != nil {
		return nil, err
	}

	return w, nil
}

func (w *worker) stop() {
	_ = w.in.Close()
	_ = w.cmd.Process.Kill()
	_ = w.cmd.Wait()
}

// ask sends inputs (pipelined) and returns the statuses; on worker death or
// silence it returns the index of the input that was being processed.
func (w *worker) ask(inputs []string, perInput time.Duration) (statuses []byte, failedAt int, why string) {
	go func() {
		bw := bufio.NewWriterSize(w.in, 1<<16)
		var l [4]byte
		for _, s := range inputs {
			binary.LittleEndian.PutUint32(l[:], uint32(len(s)))
			if _, err := bw.Write(l[:]); err != nil {
				return
			}
			if _, err := bw.WriteString(s); err != nil {
				return
			}
		}
		_ = bw.Flush()
	}()
	statuses = make([]byte, 0, len(inputs))
	type res struct {
		b   byte
		err error
	}
	ch := make(chan res, 1024)
	go func() {
		for range inputs {
			b, err := w.out.ReadByte()
			ch <- res{b, err}
			if err != nil {
				return
			}
		}
	}()
	for i := range inputs {
		select {
		case r := <-ch:
			if r.err != nil {
				_ = w.cmd.Wait()

				return statuses, i, fmt.Sprintf("the isolated worker process died (%v): %s", w.cmd.ProcessState, w.stderr.String())
			}
			statuses = append(statuses, r.b)
		case <-time.After(perInput):
			return statuses, i, fmt.Sprintf("no answer within %v (non-termination)", perInput)
		}
	}

	return statuses, -1, ""
}

type c16Case struct {
	Input string `json:"input"`
}

// checkBatch runs inputs through a fresh-or-reused worker; returns a violation for the first bad input.
func checkBatch(w **worker, inputs []string) (bad string, why string, err error) {
	if *w == nil {
		nw, serr := startWorker()
		if serr != nil {
			return "", "", serr
		}
		*w = nw
	}
	st, failedAt, reason := (*w).ask(inputs, 30*time.Second)
	if failedAt >= 0 {
		(*w).stop()
		*w = nil

		return inputs[failedAt], reason, nil
	}
	for i, s := range st {
		if s == 'P' {
			return inputs[i], "ParseURI panicked (recovered in the worker)", nil
		}
		if s != 'U' && s != 'E' {
			return inputs[i], fmt.Sprintf("unexpected worker answer %q", s), nil
		}
	}

	return "", "", nil
}

var c16Alphabet = []string{"a", "1", ".", ":", "[", "]", "/", "?", "=", "&", "%", "#", "@", "-", "+", "_", "~", ",", ";", " "}
var c16Prefixes = []string{"stun:", "stuns:", "turn:", "turns:", ""}

func knownScheme(s string) bool {
	l := strings.ToLower(s)
	for _, p := range c16Prefixes[:4] {
		if strings.HasPrefix(l, p) {
			return true
		}
	}

	return false
}

func c16Notes(rec *evid.Rec) {
	rec.Note("rule", "(a) every string over the 20-symbol alphabet {a 1 . : [ ] / ? = & % # @ - + _ ~ , ; space} up to a length bound after each of stun: stuns: turn: turns: and after no prefix; "+
		"(b) rapid: grammar-built URIs and their mutations, non-ASCII, control bytes, invalid UTF-8 and inputs up to 1 MiB. Oracle: each input is parsed by an isolated worker process whose stack is capped at 1 MiB "+
		"(debug.SetMaxStack) and which answers one byte per input; a recovered panic, the death of the worker (a stack overflow is fatal and unrecoverable) or no answer within 30 s is a violation, and the offending input is the replay. "+
		"Non-trivial = the input carries a known scheme, i.e. reaches the host/port split; distinct by string.")
	rec.Note("assumptions", []string{"legitimate parsing needs a bounded number of frames; 1 MiB of stack is three orders of magnitude above it", "30 s per input is the termination verdict (DESIGN D8); inputs are at most 1 MiB"})
}

func TestC16_Exhaustive(t *testing.T) {
	rec := evid.For("C16")
	c16Notes(rec)
	maxLen := evid.Pick(4, 5)
	shard, nshards := evid.Shard()
	const nworkers = 8
	jobs := make(chan []string, nworkers)
	var wg sync.WaitGroup
	var mu sync.Mutex
	var firstBad, firstWhy string
	var infra error
	for i := 0; i < nworkers; i++ {
		wg.Add(1)
		go func() {
			defer wg.Done()
			var w *worker
			defer func() {
				if w != nil {
					w.stop()
				}
			}()
			loc := evid.NewLocal()
			for batch := range jobs {
				mu.Lock()
				stop := firstBad != "" || infra != nil
				mu.Unlock()
				if stop {
					continue
				}
				bad, why, err := checkBatch(&w, batch)
				for _, s := range batch {
					loc.Case("len-"+fmt.Sprint(len(s)-strings.Index(s+":", ":")-1), evid.NewH().Str(s).Sum(), knownScheme(s))
				}
				mu.Lock()
				if err != nil && infra == nil {
					infra = err
				}
				if bad != "" && (firstBad == "" || len(bad) < len(firstBad)) {
					firstBad, firstWhy = bad, why
				}
				mu.Unlock()
			}
			rec.Merge(loc)
		}()
	}
	var batch []string
	var idx int64
	var gen func(prefix string, depth int)
	gen = func(s string, depth int) {
		idx++
		if int(idx%int64(nshards)) == shard {
			batch = append(batch, s)
			if len(batch) == 4096 {
				jobs <- batch
				batch = nil
			}
		}
		if depth == maxLen {
			return
		}
		for _, a := range c16Alphabet {
			gen(s+a, depth+1)
		}
	}
	for _, p := range c16Prefixes {
		gen(p, 0)
	}
	if len(batch) > 0 {
		jobs <- batch
	}
	close(jobs)
	wg.Wait()
	if infra != nil {
		t.Fatalf("harness: cannot run worker: %v", infra)
	}
	rec.Note("exhaustive_max_suffix_length", maxLen)
	rec.Sample("exhaustive", c16Case{Input: "turns:[a]:1"})
	if firstBad != "" {
		// minimise: shortest failing prefix/suffix by re-asking a fresh worker
		min := minimise(firstBad)
		pbt.Fail(t, rec, "parse", c16Case{Input: min}, "ParseURI(%q): %s", min, firstWhy)

		return
	}
	rec.Exhaustive(fmt.Sprintf("all strings over the 20-symbol alphabet up to length %d after each scheme prefix", maxLen), true)
}

// fails reports whether a single input kills / hangs / panics the worker.
func fails(s string) bool {
	var w *worker
	bad, _, err := checkBatch(&w, []string{s})
	if w != nil {
		w.stop()
	}

	return err == nil && bad != ""
}

func minimise(s string) string {
	for changed := true; changed; {
		changed = false
		for i := 0; i < len(s); i++ {
			cand := s[:i] + s[i+1:]
			if fails(cand) {
				s, changed = cand, true

				break
			}
		}
	}

	return s
}

func genURIString(rt *rapid.T) string {
	scheme := rapid.SampledFrom([]string{"stun", "stuns", "turn", "turns", "STUN", "http", "", "stunx"}).Draw(rt, "scheme")
	host := rapid.SampledFrom([]string{"example.org", "a", "1.2.3.4", "[::1]", "[2001:db8::1]", "[fe80::1%25eth0]", "[a]b", "[", "]", "[]", "[::1", "::1", "", "a b", "ex%41mple", "éx.org", "a\x00b", "\xff\xfe"}).Draw(rt, "host")
	port := rapid.SampledFrom([]string{"", ":0", ":1", ":3478", ":5349", ":65535", ":65536", ":99999", ":-1", ":+5", ":", ":x", "::", ":3478:3478"}).Draw(rt, "port")
	query := rapid.SampledFrom([]string{"", "?", "?transport=udp", "?transport=tcp", "?transport=sctp", "?transport=", "?transport=udp&transport=tcp", "?transport=udp&x=1", "?x=1", "?%zz", "?a=b;c=d", "#frag"}).Draw(rt, "query")
	s := scheme + ":" + host + port + query
	if scheme == "" && rapid.Bool().Draw(rt, "noColon") {
		s = host + port + query
	}
	switch rapid.IntRange(0, 9).Draw(rt, "mutation") {
	case 0:
		if len(s) > 0 {
			i := rapid.IntRange(0, len(s)-1).Draw(rt, "del")
			s = s[:i] + s[i+1:]
		}
	case 1:
		i := rapid.IntRange(0, len(s)).Draw(rt, "ins")
		s = s[:i] + rapid.SampledFrom(append(append([]string(nil), c16Alphabet...), "\x00", "\x7f", "\xc3", "%00", "//", "[[", "]]")).Draw(rt, "insWhat") + s[i:]
	case 2:
		i := rapid.IntRange(0, len(s)).Draw(rt, "dupAt")
		s = s[:i] + s[i:] + s[i:]
	case 3:
		n := rapid.SampledFrom([]int{100, 1000, 10000, 65536, 1 << 20}).Draw(rt, "long")
		unit := rapid.SampledFrom([]string{"a", ":", "[", "]", "[a]b", ":3478", "%", "?", "&transport=udp", "/"}).Draw(rt, "unit")
		s += strings.Repeat(unit, n/len(unit))
	}

	return s
}

func TestC16_Rapid(t *testing.T) {
	rec := evid.For("C16")
	c16Notes(rec)
	var w *worker
	defer func() {
		if w != nil {
			w.stop()
		}
	}()
	pbt.Check(t, rec, "parse", evid.Pick(15000, 200000), func(rt *rapid.T) (any, error) {
		s := genURIString(rt)
		rec.Case("generated", evid.NewH().Str(s).Sum(), knownScheme(s), func() any { return c16Case{Input: truncate(s)} })
		bad, why, err := checkBatch(&w, []string{s})
		if err != nil {
			t.Fatalf("harness: %v", err)
		}
		if bad != "" {
			return c16Case{Input: s}, fmt.Errorf("ParseURI(%q): %s", truncate(s), why)
		}

		return c16Case{Input: s}, nil
	})
}

// TestC16_LongRuns: a long run of every URI-significant symbol (and a few two/three-symbol units) at
// every structural position of every scheme. Any loop or recursion whose depth or cost grows with
// the number of repetitions of one symbol shows up here: the worker runs with a 1 MiB stack limit
// (an implementation that recurses once per input symbol - a few dozen bytes of stack each -
// overflows it at 64 KiB of input just as it would overflow Go's default limit on a proportionally
// longer input) and under the per-input time budget.
func TestC16_LongRuns(t *testing.T) {
	rec := evid.For("C16")
	c16Notes(rec)
	n := evid.Pick(1<<16, 1<<20)
	rec.Note("long_runs", fmt.Sprintf("runs of %d bytes of each of %d units at 9 structural positions x 4 schemes", n, len(c16Alphabet)+8))
	units := append(append([]string(nil), c16Alphabet...), "&=", "=&", "a&", "&a=", "%41", "%2", "::", "[]")
	positions := []struct{ pre, post string }{
		{"", ""}, {"h", ""}, {"h:", ""}, {"h:1", ""}, {"h?", ""}, {"h?transport=udp", ""}, {"h?transport=", ""}, {"[", "]"}, {"[::1", "]:3478"},
	}
	shard, nshards := evid.Shard()
	var w *worker
	defer func() {
		if w != nil {
			w.stop()
		}
	}()
	idx := 0
	for _, scheme := range c16Prefixes[:4] {
		for _, pos := range positions {
			for _, u := range units {
				idx++
				if idx%nshards != shard {
					continue
				}
				in := scheme + pos.pre + strings.Repeat(u, n/len(u)) + pos.post
				rec.Case("long-run", evid.NewH().Str(scheme).Str(pos.pre).Str(u).Sum(), true, func() any { return c16Case{Input: truncate(in)} })
				bad, why, err := checkBatch(&w, []string{in})
				if err != nil {
					t.Fatalf("harness: %v", err)
				}
				if bad != "" {
					// shorten the run as far as it still fails (halving), keep the structure
					k := n / len(u)
					for k > 16 {
						cand := scheme + pos.pre + strings.Repeat(u, k/2) + pos.post
						if !fails(cand) {
							break
						}
						k /= 2
						in = cand
					}
					pbt.Fail(t, rec, "parse", c16Case{Input: in}, "ParseURI(%q): %s", truncate(in), why)

					return
				}
			}
		}
	}
}

func truncate(s string) string {
	if len(s) > 200 {
		return s[:120] + fmt.Sprintf("...(%d bytes)...", len(s)) + s[len(s)-20:]
	}

	return s
}

func TestC16_Replay(t *testing.T) {
	rec := evid.For("C16")
	for _, path := range evid.ReplayFiles() {
		rp, err := evid.LoadReplay(path)
		if err != nil {
			t.Fatalf("cannot load %s: %v", path, err)
		}
		if rp.Property != "C16" {
			continue
		}
		var c c16Case
		if err := json.Unmarshal(rp.Case, &c); err != nil {
			t.Fatalf("bad replay: %v", err)
		}
		rec.Count("replays_run", 1)
		var w *worker
		bad, why, err := checkBatch(&w, []string{c.Input})
		if w != nil {
			w.stop()
		}
		if err != nil {
			t.Fatalf("harness: %v", err)
		}
		if bad != "" {
			rec.ReplayFailed(path, why)
			t.Errorf("replay %s still fails: ParseURI(%q): %s", path, truncate(c.Input), why)
		}
	}
}
