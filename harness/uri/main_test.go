package uri

import (
	"bufio"
	"encoding/binary"
	"fmt"
	"io"
	"os"
	"runtime/debug"
	"testing"

	"github.com/pion/stun/v3"
	"github.com/pion/stun/v3/verifharness/pbt"
)

// TestMain doubles as the isolated ParseURI worker: with VERIF_C16_CHILD set
// the process caps its stack at 1 MiB and answers one status byte per input
// ('U' uri, 'E' error, 'P' recovered panic). Unbounded recursion is a fatal,
// unrecoverable stack overflow: the worker dies and the parent sees it.
func TestMain(m *testing.M) {
	if os.Getenv("VERIF_C16_CHILD") != "" {
		childLoop()

		return
	}
	pbt.Main(m)
}

func childLoop() {
	debug.SetMaxStack(1 << 20)
	in := bufio.NewReaderSize(os.Stdin, 1<<20)
	out := os.Stdout
	var lenBuf [4]byte
	for {
		if _, err := io.ReadFull(in, lenBuf[:]); err != nil {
			return
		}
		n := binary.LittleEndian.Uint32(lenBuf[:])
		buf := make([]byte, n)
		if _, err := io.ReadFull(in, buf); err != nil {
			return
		}
		status := parseOne(string(buf))
		if _, err := out.Write([]byte{status}); err != nil {
			return
		}
	}
}

func parseOne(s string) (status byte) {
	defer func() {
		if r := recover(); r != nil {
			fmt.Fprintf(os.Stderr, "recovered panic in ParseURI(%q): %v\n", s, r)
			status = 'P'
		}
	}()
	u, err := stun.ParseURI(s)
	if err != nil {
		return 'E'
	}
	_ = u.String()

	return 'U'
}
