package hmacp

import (
	"bytes"
	stdhmac "crypto/hmac"
	"crypto/sha1" //nolint:gosec
	"crypto/sha256"
	"encoding/hex"
	"encoding/json"
	"fmt"
	"hash"
	"os"
	"sync"
	"testing"

	"github.com/pion/stun/v3/internal/hmac"
	"github.com/pion/stun/v3/verifharness/evid"
	"github.com/pion/stun/v3/verifharness/gen"
	"github.com/pion/stun/v3/verifharness/pbt"
	"github.com/pion/stun/v3/verifharness/ref"
	"pgregory.net/rapid"
)

// pop is one operation on the pooled HMAC API.
type pop struct {
	Op     string `json:"op"` // acquire write sum reset put
	H      int    `json:"h"`  // handle slot 0..2
	SHA256 bool   `json:"sha256,omitempty"`
	Key    string `json:"key,omitempty"`  // hex
	Data   string `json:"data,omitempty"` // hex chunk
	Prefix int    `json:"prefix,omitempty"`
	Spare  int    `json:"spare,omitempty"` // spare capacity of the Sum argument
	KB     int    `json:"kb,omitempty"`    // acquire: 0 = key in a fresh slice; 1 = key written into the caller's one reused key buffer; 2 = likewise, and the buffer is overwritten right after the call
}

type c18Case struct {
	Ops []pop `json:"ops"`
}

type slot struct {
	h      hash.Hash
	shadow hash.Hash
	sha256 bool
	key    []byte
	data   []byte
}

func unhex(s string) []byte {
	b, err := hex.DecodeString(s)
	if err != nil {
		panic(err)
	}

	return b
}

// stats for the non-trivial rule
type c18Stats struct {
	recycledAcrossBlock bool
	resetThenSum        bool
}

// held is a digest returned by an earlier Sum: it belongs to the caller and must not change
// when the object is used again, reset, returned to the pool or handed to someone else.
type held struct {
	got  []byte
	want []byte
	op   int
}

func runC18(c c18Case, st *c18Stats) error {
	var slots [3]*slot
	var helds []held
	checkHeld := func(i int, what string) error {
		for _, h := range helds {
			if !bytes.Equal(h.got, h.want) {
				return fmt.Errorf("op %d (%s): the digest returned by Sum at op %d changed afterwards: %x -> %x (Sum must return memory owned by the caller)", i, what, h.op, h.want, h.got)
			}
		}

		return nil
	}
	lastKeyLen := map[bool]int{} // per algorithm: key length of the most recently returned object
	putSeen := map[bool]bool{}
	defer func() {
		for _, s := range slots {
			if s != nil {
				if s.sha256 {
					hmac.PutSHA256(s.h)
				} else {
					hmac.PutSHA1(s.h)
				}
			}
		}
	}()
	keyBuf := make([]byte, 512) // one key buffer the caller fills again for every KB>0 acquire (keys are copied by crypto/hmac.New; a caller may reuse its buffer)
	for i, o := range c.Ops {
		s := slots[o.H%3]
		switch o.Op {
		case "acquire":
			if s != nil {
				continue
			}
			key := unhex(o.Key)
			passed := key
			if o.KB > 0 {
				passed = keyBuf[:copy(keyBuf, key)]
			}
			ns := &slot{sha256: o.SHA256, key: key}
			if o.SHA256 {
				ns.h, ns.shadow = hmac.AcquireSHA256(passed), stdhmac.New(sha256.New, key)
			} else {
				ns.h, ns.shadow = hmac.AcquireSHA1(passed), stdhmac.New(sha1.New, key)
			}
			if o.KB == 2 {
				for j := range passed {
					passed[j] = 0xEE
				}
			}
			if putSeen[o.SHA256] && st != nil && (lastKeyLen[o.SHA256] > 64) != (len(key) > 64) {
				st.recycledAcrossBlock = true
			}
			slots[o.H%3] = ns
			size, block := 20, 64
			if o.SHA256 {
				size = 32
			}
			if ns.h.Size() != size || ns.h.BlockSize() != block {
				return fmt.Errorf("op %d: Size/BlockSize = %d/%d, want %d/%d", i, ns.h.Size(), ns.h.BlockSize(), size, block)
			}
		case "write":
			if s == nil {
				continue
			}
			d := unhex(o.Data)
			n, err := s.h.Write(d)
			if err != nil || n != len(d) {
				return fmt.Errorf("op %d: Write returned (%d, %v)", i, n, err)
			}
			s.shadow.Write(d)
			s.data = append(s.data, d...)
		case "sum":
			if s == nil {
				continue
			}
			prefix := make([]byte, o.Prefix, o.Prefix+o.Spare)
			if o.Prefix == 0 && o.Spare == 0 {
				prefix = nil // the usual call: Sum(nil)
			}
			for k := range prefix {
				prefix[k] = byte(0xC0 + k)
			}
			got := s.h.Sum(prefix)
			want := s.shadow.Sum(nil)
			var byDef []byte
			if s.sha256 {
				byDef = ref.HMACSHA256(s.key, s.data)
			} else {
				byDef = ref.HMACSHA1(s.key, s.data)
			}
			if len(got) != o.Prefix+len(want) || !bytes.Equal(got[:o.Prefix], prefix) {
				return fmt.Errorf("op %d: Sum did not append to its argument (len %d, prefix %d)", i, len(got), o.Prefix)
			}
			if len(helds) < 6 {
				helds = append(helds, held{got: got, want: append([]byte(nil), got...), op: i})
			}
			if !bytes.Equal(got[o.Prefix:], want) || !bytes.Equal(want, byDef) {
				return fmt.Errorf("op %d: pooled HMAC-%s(key %d bytes, %d bytes written) = %x, crypto/hmac = %x, RFC 2104 by definition = %x",
					i, map[bool]string{false: "SHA1", true: "SHA256"}[s.sha256], len(s.key), len(s.data), got[o.Prefix:], want, byDef)
			}
		case "reset":
			if s == nil {
				continue
			}
			s.h.Reset()
			s.shadow.Reset()
			s.data = s.data[:0]
			if st != nil && i+1 < len(c.Ops) && c.Ops[i+1].Op == "sum" && c.Ops[i+1].H%3 == o.H%3 {
				st.resetThenSum = true
			}
		case "put":
			if s == nil {
				continue
			}
			if s.sha256 {
				hmac.PutSHA256(s.h)
			} else {
				hmac.PutSHA1(s.h)
			}
			lastKeyLen[s.sha256], putSeen[s.sha256] = len(s.key), true
			slots[o.H%3] = nil
		default:
			return fmt.Errorf("harness: unknown op %q", o.Op)
		}
		if err := checkHeld(i, o.Op); err != nil {
			return err
		}
	}

	return nil
}

func genKey(rt *rapid.T) string {
	n := rapid.OneOf(rapid.IntRange(0, 40), rapid.SampledFrom([]int{0, 1, 20, 32, 63, 64, 65, 66, 100, 128, 129, 300}), rapid.IntRange(0, 300)).Draw(rt, "keyLen")

	return hex.EncodeToString(gen.Bytes(rt, n, "key"))
}

func genPop() *rapid.Generator[pop] {
	return rapid.Custom(func(rt *rapid.T) pop {
		o := pop{Op: rapid.SampledFrom([]string{"acquire", "acquire", "write", "write", "write", "sum", "sum", "reset", "put", "put"}).Draw(rt, "op"), H: rapid.IntRange(0, 2).Draw(rt, "h")}
		switch o.Op {
		case "acquire":
			o.SHA256 = rapid.IntRange(0, 2).Draw(rt, "alg") == 0
			o.Key = genKey(rt)
			o.KB = rapid.SampledFrom([]int{0, 0, 1, 1, 2}).Draw(rt, "keyBufMode")
			if o.KB > 0 && rapid.Bool().Draw(rt, "stickyLen") {
				// successive keys of one length in the caller's reused buffer
				n := rapid.SampledFrom([]int{16, 16, 20, 70}).Draw(rt, "stickyKeyLen")
				o.Key = hex.EncodeToString(gen.Bytes(rt, n, "key"))
			}
		case "write":
			n := rapid.OneOf(rapid.IntRange(0, 70), rapid.SampledFrom([]int{0, 1, 55, 56, 63, 64, 65, 119, 128, 1000, 4096})).Draw(rt, "chunk")
			o.Data = hex.EncodeToString(gen.Bytes(rt, n, "data"))
		case "sum":
			o.Prefix = rapid.SampledFrom([]int{0, 0, 1, 7, 20, 64}).Draw(rt, "prefix")
			o.Spare = rapid.SampledFrom([]int{0, 0, 1, 19, 20, 32, 64}).Draw(rt, "spare")
		}

		return o
	})
}

func c18Notes(rec *evid.Rec) {
	rec.Note("rule", "rapid state machine over the internal pooled HMAC API: AcquireSHA1/AcquireSHA256(key) with up to three handles held at once, Write in random chunkings of messages 0..4096+ bytes, Sum with empty / non-empty, "+
		"exact-capacity / spare-capacity arguments (repeated), Reset, further writes, Put; keys passed in fresh slices or in one key buffer that the caller refills for every acquire (and may overwrite right after the call); keys 0..300 bytes incl. 63/64/65 and long-after-short / short-after-long successions on recycled objects. A shadow crypto/hmac object receives the same operations: "+
		"every Sum must equal it and the RFC 2104 value computed by definition over the bytes written since the last reset, leave its argument's prefix intact and not disturb the running state; Size/BlockSize as specified. "+
		"A concurrent variant runs 2..16 goroutines of such sequences on the shared pools under the race detector. Non-trivial = an object obtained after a Put whose previous key was on the other side of the 64-byte block, or Reset directly followed by Sum "+
		"(marshaled-state fast path); distinct by operation sequence.")
	rec.Note("assumptions", []string{"sync.Pool may or may not return the object just put; recycling is likely, not certain (counted from the plan, not observed)"})
}

func TestC18_Rapid(t *testing.T) {
	rec := evid.For("C18")
	c18Notes(rec)
	pbt.Check(t, rec, "ops", evid.Pick(15000, 200000), func(rt *rapid.T) (any, error) {
		minOps := rapid.SampledFrom([]int{1, 8, 25}).Draw(rt, "minOps")
		c := c18Case{Ops: rapid.SliceOfN(genPop(), minOps, 60).Draw(rt, "ops")}
		var st c18Stats
		var err error
		if perr := pbt.Safely(func() { err = runC18(c, &st) }); perr != nil {
			err = perr
		}
		h := evid.NewH()
		for _, o := range c.Ops {
			h.Str(o.Op).I(o.H).I(len(o.Key)).I(len(o.Data)).I(o.Prefix)
		}
		rec.Case("sequence", h.Sum(), st.recycledAcrossBlock || st.resetThenSum, func() any { return c })

		return c, err
	})
}

type c18Conc struct {
	Threads []c18Case `json:"threads"`
}

func runC18Conc(c c18Conc) error {
	var wg sync.WaitGroup
	errs := make([]error, len(c.Threads))
	for i := range c.Threads {
		i := i
		wg.Add(1)
		go func() {
			defer wg.Done()
			for rep := 0; rep < 3 && errs[i] == nil; rep++ {
				if perr := pbt.Safely(func() { errs[i] = runC18(c.Threads[i], nil) }); perr != nil {
					errs[i] = perr
				}
			}
		}()
	}
	wg.Wait()
	for i, e := range errs {
		if e != nil {
			return fmt.Errorf("goroutine %d: %w", i, e)
		}
	}

	return nil
}

func TestC18_Concurrent(t *testing.T) {
	rec := evid.For("C18")
	c18Notes(rec)
	if os.Getenv("VERIF_RACE") != "" {
		rec.Note("race_detector", "on")
	}
	pbt.Check(t, rec, "concurrent", evid.Pick(600, 10000), func(rt *rapid.T) (any, error) {
		n := rapid.IntRange(2, 16).Draw(rt, "goroutines")
		var c c18Conc
		for i := 0; i < n; i++ {
			c.Threads = append(c.Threads, c18Case{Ops: rapid.SliceOfN(genPop(), 4, 25).Draw(rt, "ops")})
		}
		rec.Case("concurrent", evid.NewH().Str(fmt.Sprint(c)).Sum(), true, func() any { return c18Conc{Threads: c.Threads[:1]} })

		return c, runC18Conc(c)
	})
}

func TestC18_Replay(t *testing.T) {
	rec := evid.For("C18")
	for _, path := range evid.ReplayFiles() {
		rp, err := evid.LoadReplay(path)
		if err != nil {
			t.Fatalf("cannot load %s: %v", path, err)
		}
		if rp.Property != "C18" {
			continue
		}
		rec.Count("replays_run", 1)
		var rerr error
		switch rp.Kind {
		case "ops":
			var c c18Case
			if err := json.Unmarshal(rp.Case, &c); err != nil {
				t.Fatalf("bad replay: %v", err)
			}
			rerr = runC18(c, nil)
		case "concurrent":
			var c c18Conc
			if err := json.Unmarshal(rp.Case, &c); err != nil {
				t.Fatalf("bad replay: %v", err)
			}
			for i := 0; i < 100 && rerr == nil; i++ {
				rerr = runC18Conc(c)
			}
		}
		if rerr != nil {
			rec.ReplayFailed(path, rerr.Error())
			t.Errorf("replay %s still fails: %v", path, rerr)
		}
	}
}
