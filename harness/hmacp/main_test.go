package hmacp

import (
	"testing"

	"github.com/pion/stun/v3/verifharness/pbt"
)

func TestMain(m *testing.M) { pbt.Main(m) }
