module github.com/pion/stun/v3/verifharness

go 1.23

toolchain go1.23.5

require (
	github.com/anishathalye/porcupine v1.3.0
	github.com/pion/dtls/v3 v3.0.6
	github.com/pion/stun/v3 v3.0.0
	github.com/pion/transport/v3 v3.0.7
	pgregory.net/rapid v1.3.0
)

require (
	github.com/pion/logging v0.2.3 // indirect
	github.com/wlynxg/anet v0.0.3 // indirect
	golang.org/x/crypto v0.32.0 // indirect
)

replace github.com/pion/stun/v3 => /repo
