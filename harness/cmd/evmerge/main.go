// Command evmerge merges per-process stats files into one evidence file.
//
//	evmerge -prop C01 -tier quick -seed 1 -wall 12.3 -out evidence/C01.json stats1.json stats2.json ...
package main

import (
	"encoding/binary"
	"encoding/json"
	"flag"
	"fmt"
	"os"
	"sort"
)

type stats struct {
	Property   string           `json:"property"`
	Evals      int64            `json:"evaluations"`
	Nontrivial int64            `json:"nontrivial_total"`
	Distinct   int              `json:"distinct_nontrivial"`
	Capped     bool             `json:"distinct_capped"`
	Classes    map[string]int64 `json:"classes"`
	Counters   map[string]int64 `json:"counters"`
	Notes      map[string]any   `json:"notes"`
	Samples    []any            `json:"samples"`
	Exhaustive map[string]bool  `json:"exhaustive"`
	Violations int              `json:"violations"`
	Replays    []string         `json:"replays"`
	Known      []string         `json:"known"`
	WallS      float64          `json:"wall_s"`
	HashFile   string           `json:"hash_file"`
}

func readHashes(path string) []uint64 {
	b, err := os.ReadFile(path)
	if err != nil {
		return nil
	}
	out := make([]uint64, len(b)/8)
	for i := range out {
		out[i] = binary.LittleEndian.Uint64(b[8*i:])
	}

	return out
}

func main() {
	prop := flag.String("prop", "", "property id")
	tier := flag.String("tier", "quick", "tier")
	seed := flag.Int64("seed", 1, "seed")
	wall := flag.Float64("wall", 0, "wall seconds")
	out := flag.String("out", "", "evidence file")
	viol := flag.Int("violations", 0, "violations reported by the driver")
	incomplete := flag.Bool("incomplete", false, "some worker did not finish")
	flag.Parse()

	var (
		evals, nontriv int64
		classes        = map[string]int64{}
		counters       = map[string]int64{}
		exhaustive     = map[string]bool{}
		notes          = map[string]any{}
		samples        []any
		known          []string
		capped         bool
		all            []uint64
		procs          int
	)
	for _, f := range flag.Args() {
		b, err := os.ReadFile(f)
		if err != nil {
			continue
		}
		var s stats
		if err := json.Unmarshal(b, &s); err != nil || s.Property != *prop {
			continue
		}
		procs++
		evals += s.Evals
		nontriv += s.Nontrivial
		capped = capped || s.Capped
		for k, v := range s.Classes {
			classes[k] += v
		}
		for k, v := range s.Counters {
			counters[k] += v
		}
		for k, v := range s.Exhaustive {
			if old, ok := exhaustive[k]; ok {
				exhaustive[k] = old && v
			} else {
				exhaustive[k] = v
			}
		}
		for k, v := range s.Notes {
			if _, ok := notes[k]; !ok {
				notes[k] = v
			}
		}
		for _, sm := range s.Samples {
			if len(samples) < 12 {
				samples = append(samples, sm)
			}
		}
		known = append(known, s.Known...)
		all = append(all, readHashes(s.HashFile)...)
	}
	sort.Slice(all, func(i, j int) bool { return all[i] < all[j] })
	distinct := 0
	for i, h := range all {
		if i == 0 || h != all[i-1] {
			distinct++
		}
	}
	rule, _ := notes["rule"].(string)
	delete(notes, "rule")
	var assumptions []string
	if a, ok := notes["assumptions"].([]any); ok {
		for _, x := range a {
			if s, ok := x.(string); ok {
				assumptions = append(assumptions, s)
			}
		}
	}
	delete(notes, "assumptions")
	allExh := len(exhaustive) > 0 && !*incomplete
	var spaces []string
	for k, v := range exhaustive {
		if v {
			spaces = append(spaces, k)
		} else {
			allExh = false
		}
	}
	sort.Strings(spaces)
	cov := map[string]any{
		"evaluations":             evals,
		"distinct_nontrivial":     distinct,
		"nontrivial_total":        nontriv,
		"distinct_is_lower_bound": capped,
		"rule":                    rule,
		"samples":                 samples,
		"classes":                 classes,
		"counters":                counters,
		"processes":               procs,
		"exhaustive_spaces":       spaces,
	}
	// "exhaustive" is claimed for the property only when the check declares that the enumerated
	// space is the property's complete domain (C19); bounded sub-spaces that were enumerated
	// completely are listed under exhaustive_spaces, everything beyond them is sampled.
	if complete, _ := notes["complete_domain"].(bool); allExh && complete {
		cov["exhaustive"] = true
	} else {
		cov["exhaustive"] = false
	}
	delete(notes, "complete_domain")
	cov["exhaustive_spaces_note"] = "bounded sub-spaces enumerated completely by this run; inputs outside them are generated randomly (sampled)"
	for k, v := range notes {
		cov[k] = v
	}
	if len(known) > 0 {
		cov["known_findings_reproduced"] = known
	}
	if *incomplete {
		cov["incomplete"] = true
	}
	ev := map[string]any{
		"property_id": *prop,
		"tier":        *tier,
		"seed":        *seed,
		"level":       "exploration",
		"coverage":    cov,
		"assumptions": assumptions,
		"wall_s":      *wall,
		"violations":  *viol,
	}
	b, _ := json.MarshalIndent(ev, "", " ")
	if err := os.WriteFile(*out, append(b, '\n'), 0o644); err != nil {
		fmt.Fprintln(os.Stderr, err)
		os.Exit(2)
	}
}
