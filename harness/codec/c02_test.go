package codec

import (
	"encoding/json"
	"errors"
	"fmt"
	"testing"
	"unsafe"

	"github.com/pion/stun/v3"
	"github.com/pion/stun/v3/verifharness/evid"
	"github.com/pion/stun/v3/verifharness/gen"
	"github.com/pion/stun/v3/verifharness/pbt"
	"github.com/pion/stun/v3/verifharness/ref"
	"pgregory.net/rapid"
)

var errScripted = errors.New("scripted callback failure")

// lookupModel checks Get / Attributes.Get / Contains / ForEach of a decoded
// message against a plain list model built from the reference parse.
func lookupModel(m *stun.Message, r ref.Msg, failAt int) error {
	types := map[uint16]bool{}
	for _, a := range r.Attrs {
		types[a.Type] = true
	}
	// two absent types
	for _, cand := range []uint16{0x7F01, 0x7F02, 0x7F03, 0x8020} {
		if !types[cand] {
			types[cand] = false
		}
	}
	for t, present := range types {
		at := stun.AttrType(t)
		var matches []ref.Attr
		for _, a := range r.Attrs {
			if a.Type == t {
				matches = append(matches, a)
			}
		}
		if present != (len(matches) > 0) {
			return fmt.Errorf("harness: model inconsistency")
		}
		v, err := m.Get(at)
		ra, ok := m.Attributes.Get(at)
		if m.Contains(at) != present {
			return fmt.Errorf("Contains(%#04x)=%v, reference membership %v", t, !present, present)
		}
		if !present {
			if !errors.Is(err, stun.ErrAttributeNotFound) || v != nil {
				return fmt.Errorf("Get(%#04x) on absent type = (%x, %v), want ErrAttributeNotFound", t, v, err)
			}
			if ok {
				return fmt.Errorf("Attributes.Get(%#04x) reports an absent type as present", t)
			}
		} else {
			if err != nil || string(v) != string(matches[0].Value) {
				return fmt.Errorf("Get(%#04x) = (%x, %v), first match is %x", t, v, err, matches[0].Value)
			}
			if !ok || uint16(ra.Type) != t || int(ra.Length) != matches[0].Len || string(ra.Value) != string(matches[0].Value) {
				return fmt.Errorf("Attributes.Get(%#04x) = (%v, %v), first match is %x", t, ra, ok, matches[0].Value)
			}
		}
		// ForEach: visits exactly the matches in order; Get inside f returns the current match.
		before := m.Attributes
		snap := append(stun.Attributes(nil), m.Attributes...)
		var seen [][]byte
		ferr := m.ForEach(at, func(mm *stun.Message) error {
			if mm != m {
				return fmt.Errorf("callback received another message")
			}
			cur, gerr := mm.Get(at)
			if gerr != nil {
				return fmt.Errorf("Get inside ForEach: %w", gerr)
			}
			seen = append(seen, cur)
			if failAt > 0 && len(seen) == failAt {
				return errScripted
			}

			return nil
		})
		wantVisits := len(matches)
		var wantErr error
		if failAt > 0 && failAt <= len(matches) {
			wantVisits, wantErr = failAt, errScripted
		}
		if ferr != wantErr { //nolint:errorlint // identity intended
			return fmt.Errorf("ForEach(%#04x) returned %v, want %v (matches %d, scripted failure at visit %d)", t, ferr, wantErr, len(matches), failAt)
		}
		if len(seen) != wantVisits {
			return fmt.Errorf("ForEach(%#04x) visited %d attributes, want %d", t, len(seen), wantVisits)
		}
		for i, s := range seen {
			if string(s) != string(matches[i].Value) {
				return fmt.Errorf("ForEach(%#04x) visit %d saw %x, want %x (order/identity)", t, i, s, matches[i].Value)
			}
		}
		after := m.Attributes
		if len(after) != len(before) || cap(after) != cap(before) ||
			(len(before) > 0 && unsafe.SliceData(after) != unsafe.SliceData(before)) {
			return fmt.Errorf("ForEach(%#04x, failAt=%d) did not restore m.Attributes (len %d->%d cap %d->%d)", t, failAt, len(before), len(after), cap(before), cap(after))
		}
		for i := range snap {
			if !snap[i].Equal(after[i]) {
				return fmt.Errorf("ForEach(%#04x) changed attribute %d", t, i)
			}
		}
	}

	return nil
}

type c02Case struct {
	Input  hx     `json:"input"`
	FailAt int    `json:"fail_at"`
	Prior  hx     `json:"prior,omitempty"`
	Source string `json:"source,omitempty"`
}

func runC02(c c02Case) error {
	in := unHex(c.Input)
	r, ok := ref.Parse(in)
	m := new(stun.Message)
	if c.Prior != "" {
		if err := stun.Decode(unHex(c.Prior), m); err != nil {
			return fmt.Errorf("harness: prior does not decode: %w", err)
		}
	}
	var err error
	var perr error
	guarded("C02", "decode", c, func() { perr = pbt.Safely(func() { err = stun.Decode(in, m) }) })
	if perr != nil {
		return perr
	}
	if (err == nil) != ok {
		return fmt.Errorf("verdict: library error %v, independent RFC 5389 parse accepts=%v", err, ok)
	}
	if !ok {
		return nil
	}
	if aerr := agree(m, r); aerr != nil {
		return aerr
	}
	var lerr error
	if perr := pbt.Safely(func() { lerr = lookupModel(m, r, c.FailAt) }); perr != nil {
		return perr
	}

	return lerr
}

// c02Sig: non-trivial when the verdict is decided by body structure, i.e.
// the header (>= 20 bytes, cookie) is fine and either the reference rejects
// or it accepts with >= 1 attribute.
func c02Sig(in []byte) (uint64, bool, string) {
	sig, _ := decodeSig(in, 0, false)
	if len(in) < 20 || !stun.IsMessage(in) {
		return sig, false, "header-reject"
	}
	r, ok := ref.Parse(in)
	switch {
	case !ok && len(in) < 20+(int(in[2])<<8|int(in[3])):
		return sig, true, "reject-short-buffer"
	case !ok:
		return sig, true, "reject-body-structure"
	case len(r.Attrs) > 0:
		return sig, true, "accept-with-attrs"
	default:
		return sig, false, "accept-empty"
	}
}

func c02Notes(rec *evid.Rec) {
	rec.Note("rule", "inputs as in C01 (random, RFC-framed with non-canonical freedoms incl. 0x8020 alias/top type bits/trailing bytes/dirty padding, structure-aware mutations, "+
		"exhaustive length shapes). Oracle: stun.Decode accepts iff an independently written RFC 5389 parser accepts; on success class, method, length, transaction id and the ordered "+
		"(type,length,value) list are equal; Get/Attributes.Get/Contains/ForEach (with and without a callback scripted to fail at its k-th visit) agree with a list model and ForEach "+
		"restores m.Attributes (pointer,len,cap,contents). Non-trivial = header is fine and the verdict depends on body structure (reference rejects, or accepts with >= 1 attribute); "+
		"distinct by (length, declared length, attribute length-field sequence).")
	rec.Note("assumptions", []string{"harness/ref.Parse is a faithful RFC 5389 section 6/15 parser (validated on the RFC 5769 vectors)"})
}

func TestC02_Rapid(t *testing.T) {
	rec := evid.For("C02")
	c02Notes(rec)
	pbt.Check(t, rec, "decode", evid.Pick(60000, 400000), func(rt *rapid.T) (any, error) {
		dc := genDecodeCase(rt)
		c := c02Case{Input: dc.Input, Prior: dc.Prior, Source: dc.Source, FailAt: rapid.IntRange(0, 3).Draw(rt, "failAt")}
		sig, nt, class := c02Sig(unHex(c.Input))
		rec.Case(class, sig, nt, func() any { return c })

		return c, runC02(c)
	})
}

func TestC02_Shapes(t *testing.T) {
	rec := evid.For("C02")
	c02Notes(rec)
	bound := evid.Pick(20, 28)
	shard, nshards := evid.Shard()
	pool := poolBytes(4096)
	loc := evid.NewLocal()
	k := 0
	failed := false
	total := gen.Shapes(bound, shard, nshards, func(s gen.Shape) bool {
		in := s.Render(pool)
		k++
		c := c02Case{Input: toHex(in), FailAt: k % 3, Source: "shape"}
		sig, nt, class := c02Sig(in)
		loc.Case("shape:"+class, sig, nt)
		if err := runC02(c); err != nil {
			pbt.Fail(t, rec, "decode", c, "%v", err)
			failed = true

			return false
		}

		return true
	})
	rec.Merge(loc)
	rec.Count("shapes", total)
	rec.Note("shape_body_bound", bound)
	rec.Sample("shape", gen.Shape{BufLen: 36, Declared: 16, Lens: []int{3, 0, 0xFFFF}})
	rec.Exhaustive(fmt.Sprintf("length shapes up to body bound %d", bound), !failed)
}

func TestC02_Replay(t *testing.T) { replayAll(t, "C02") }

func init() {
	replayers["C02/decode"] = func(raw json.RawMessage) error {
		var c c02Case
		if err := json.Unmarshal(raw, &c); err != nil {
			return err
		}

		return runC02(c)
	}
}
