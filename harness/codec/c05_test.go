package codec

import (
	"encoding/json"
	"fmt"
	"testing"

	"github.com/pion/stun/v3"
	"github.com/pion/stun/v3/verifharness/evid"
	"github.com/pion/stun/v3/verifharness/gen"
	"github.com/pion/stun/v3/verifharness/pbt"
	"github.com/pion/stun/v3/verifharness/ref"
	"pgregory.net/rapid"
)

// ---- (i) verifier iff ------------------------------------------------------

type c05Verify struct {
	Raw     hx     `json:"raw"`
	Variant string `json:"variant,omitempty"`
	Extra   int    `json:"extra_cap"`
}

func runC05Verify(c c05Verify) error {
	raw := unHex(c.Raw)
	m := new(stun.Message)
	m.Raw = gen.Arena(raw, c.Extra, 0x5A)
	if err := m.Decode(); err != nil {
		return fmt.Errorf("harness: generated message does not decode: %w", err)
	}
	want := ref.FPVerdict(raw)
	before := snapMsg(m)
	var err, perr error
	guarded("C05", "verify", c, func() { perr = pbt.Safely(func() { err = stun.Fingerprint.Check(m) }) })
	if perr != nil {
		return perr
	}
	if (err == nil) != want {
		return fmt.Errorf("Fingerprint.Check returned %v but RFC 5389 15.5 verdict is %v (variant %s)", err, want, c.Variant)
	}
	if derr := before.diff(m); derr != nil {
		return fmt.Errorf("Check modified the message: %w", derr)
	}

	return nil
}

func put32(b []byte, v uint32) {
	b[0], b[1], b[2], b[3] = byte(v>>24), byte(v>>16), byte(v>>8), byte(v)
}

func genC05Verify(rt *rapid.T) (c05Verify, bool) {
	before := gen.TLVs(rt, 6, 800, "before")
	after := gen.TLVs(rt, 3, 200, "after")
	fpLen := rapid.SampledFrom([]int{4, 4, 4, 4, 4, 0, 1, 3, 5, 8, 20}).Draw(rt, "fpLen")
	hasFP := rapid.IntRange(0, 9).Draw(rt, "hasFP") != 0
	// most of the time FINGERPRINT is last (the only layout in which "last 8
	// bytes" is the attribute itself); otherwise attributes follow it.
	if rapid.IntRange(0, 2).Draw(rt, "fpLast") != 0 {
		after = nil
	}
	w := gen.Wire{TID: gen.TID().Draw(rt, "tid"), TypeRaw: rapid.Uint16().Draw(rt, "typeRaw")}
	w.Attrs = append(w.Attrs, before...)
	if hasFP {
		w.Attrs = append(w.Attrs, ref.EAttr{Type: 0x8028, Value: make([]byte, fpLen)})
	}
	w.Attrs = append(w.Attrs, after...)
	if rapid.Bool().Draw(rt, "dirtyPad") {
		w.Pad = rapid.SliceOfN(rapid.Byte(), 0, 12).Draw(rt, "pad")
	}
	if rapid.IntRange(0, 4).Draw(rt, "trail") == 0 {
		w.Trailing = rapid.SliceOfN(rapid.Byte(), 1, 16).Draw(rt, "trailing")
	}
	raw := w.Bytes()
	variant := "none"
	near := false
	r, _ := ref.Parse(raw)
	if a, ok := r.First(0x8028); ok && len(raw) >= 8 {
		variant = rapid.SampledFrom([]string{"correct", "correct", "correct", "short-span", "long-span", "no-xor", "bitflip", "random"}).Draw(rt, "variant")
		span := len(raw) - 8
		var v uint32
		switch variant {
		case "correct":
			v = ref.Fingerprint(raw[:span])
			near = a.Len != 4
		case "short-span":
			if span >= 4 {
				v = ref.Fingerprint(raw[:span-4])
			}
			near = true
		case "long-span":
			v = ref.Fingerprint(raw[:min(span+4, len(raw))])
			near = true
		case "no-xor":
			v = ref.CRC32(raw[:span])
			near = true
		case "bitflip":
			v = ref.Fingerprint(raw[:span]) ^ (1 << rapid.IntRange(0, 31).Draw(rt, "fb"))
			near = true
		default:
			v = rapid.Uint32().Draw(rt, "rv")
		}
		val := make([]byte, 4)
		put32(val, v)
		copy(raw[20+a.Off:20+a.Off+a.Len], val)
		// the value sits inside the CRC span when attributes follow it: recompute once so that
		// "correct" stays correct in that layout too
		if variant == "correct" && 20+a.Off < span {
			for i := 0; i < 4; i++ { // fixed point is not guaranteed; the oracle decides either way
				put32(val, ref.Fingerprint(raw[:span]))
				copy(raw[20+a.Off:20+a.Off+a.Len], val)
			}
		}
	}
	c := c05Verify{Raw: toHex(raw), Variant: variant}
	c.Extra = rapid.SampledFrom([]int{0, 0, 1, 8, 64}).Draw(rt, "extraCap")

	return c, near
}

// ---- (ii) library-fingerprinted messages: flips and bursts -----------------

type c05Flip struct {
	Start  *bop  `json:"start,omitempty"` // nil: built from scratch; else the message is first DECODED (possibly with trailing bytes) and then extended
	Before []bop `json:"before"`
	Bit    int   `json:"bit"`    // first bit of the corruption, -1: every single bit
	Width  int   `json:"width"`  // burst width in bits (1 = single flip)
	Mask   hx    `json:"mask"`   // burst pattern (Width bits, first and last set), hex of little-endian bits
	Bursts int   `json:"bursts"` // number of random bursts when Bit < 0
}

func countType(r ref.Msg, t uint16) int {
	n := 0
	for _, a := range r.Attrs {
		if a.Type == t {
			n++
		}
	}

	return n
}

// detect applies the corruption and returns an error if it goes unnoticed.
func detect(c c05Flip, raw []byte, positions []int, t *stun.Message) (nontrivial bool, err error) {
	mut := append([]byte(nil), raw...)
	for _, p := range positions {
		// Bit p is bit p%8 of byte p/8 counted from the least significant bit: the order in which
		// the reflected IEEE CRC-32 consumes bits, i.e. the order in which "a burst of <= 32
		// consecutive bits" is guaranteed to be detected (a window that is contiguous only in
		// MSB-first numbering can span 40 polynomial bits and carries no such guarantee).
		mut[p/8] ^= 1 << (p % 8)
	}
	derr := stun.Decode(mut, t)
	r, refOK := ref.Parse(mut)
	if (derr == nil) != refOK {
		return false, fmt.Errorf("corruption %v: Decode says %v, reference parse says %v", positions, derr, refOK)
	}
	if derr != nil {
		return false, nil
	}
	var cerr, perr error
	guarded("C05", "flip", c, func() { perr = pbt.Safely(func() { cerr = stun.Fingerprint.Check(t) }) })
	if perr != nil {
		return true, perr
	}
	if (cerr == nil) != ref.FPVerdict(mut) {
		return true, fmt.Errorf("corruption %v: Check=%v, reference verdict %v", positions, cerr, ref.FPVerdict(mut))
	}
	if cerr == nil && countType(r, 0x8028) == 1 {
		return true, fmt.Errorf("corruption of bits %v (bytes %d..%d of %d) is undetected: message decodes, FINGERPRINT is its only such attribute and the check passes",
			positions, positions[0]/8, positions[len(positions)-1]/8, len(raw))
	}

	return true, nil
}

func runC05Flip(c c05Flip, rec *evid.Rec, rt *rapid.T) (c05Flip, error) {
	var b *builder
	var err error
	if perr := pbt.Safely(func() {
		b, err = startThenApply(c.Start, c.Before)
		if err == nil {
			err = b.apply(bop{Kind: "fp"})
		}
	}); perr != nil {
		return c, perr
	}
	if err != nil {
		return c, err
	}
	raw := append([]byte(nil), b.m.Raw...)
	r, ok := ref.Parse(raw)
	if !ok || len(r.Attrs) == 0 {
		return c, fmt.Errorf("fingerprinted message is not well-formed")
	}
	last := r.Attrs[len(r.Attrs)-1]
	if last.WireType != 0x8028 || last.Len != 4 {
		return c, fmt.Errorf("last attribute after Fingerprint.AddTo is (type %#04x len %d)", last.WireType, last.Len)
	}
	want := ref.Fingerprint(raw[:len(raw)-8])
	got := uint32(last.Value[0])<<24 | uint32(last.Value[1])<<16 | uint32(last.Value[2])<<8 | uint32(last.Value[3])
	if got != want {
		return c, fmt.Errorf("AddTo wrote %#08x, CRC-32 of the %d preceding bytes (final length) xor 0x5354554e is %#08x", got, len(raw)-8, want)
	}
	if stun.FingerprintValue(raw[:len(raw)-8]) != want {
		return c, fmt.Errorf("FingerprintValue disagrees with the bitwise CRC-32")
	}
	var cerr, perr error
	guarded("C05", "flip", c, func() { perr = pbt.Safely(func() { cerr = stun.Fingerprint.Check(b.m) }) })
	if perr != nil || cerr != nil {
		return c, fmt.Errorf("fingerprinted message fails its own check: %v %v", cerr, perr)
	}
	d := new(stun.Message)
	if derr := stun.Decode(raw, d); derr != nil {
		return c, derr
	}
	if cerr := stun.Fingerprint.Check(d); cerr != nil {
		return c, fmt.Errorf("re-decoded fingerprinted message fails the check: %v", cerr)
	}
	if cerr := d.Check(stun.Fingerprint); cerr != nil {
		return c, fmt.Errorf("Message.Check(Fingerprint) fails on a fingerprinted message: %v", cerr)
	}
	loc := evid.NewLocal()
	defer func() {
		if rec != nil {
			rec.Merge(loc)
		}
	}()
	t := new(stun.Message)
	nbits := len(raw) * 8
	if c.Bit >= 0 {
		pos := burstPositions(c.Bit, c.Width, unHex(c.Mask), nbits)
		_, err := detect(c, raw, pos, t)

		return c, err
	}
	if len(raw) <= 320 {
		for bit := 0; bit < nbits; bit++ {
			nt, err := detect(c, raw, []int{bit}, t)
			loc.Case("flip", evid.NewH().Bytes(raw[:8]).I(len(raw)).I(bit).Sum(), nt)
			if err != nil {
				c.Bit, c.Width, c.Mask = bit, 1, "01"

				return c, err
			}
		}
	}
	if rt != nil {
		for i := 0; i < c.Bursts; i++ {
			width := rapid.IntRange(2, 32).Draw(rt, "burstWidth")
			// start classes: anywhere, around the header length field, around the FINGERPRINT TLV
			var start int
			switch rapid.IntRange(0, 3).Draw(rt, "burstAt") {
			case 0:
				start = rapid.IntRange(0, 40).Draw(rt, "bHdr")
			case 1:
				start = nbits - 64 - rapid.IntRange(0, 40).Draw(rt, "bTail")
			default:
				start = rapid.IntRange(0, nbits-1).Draw(rt, "bAny")
			}
			if start < 0 {
				start = 0
			}
			mask := rapid.SliceOfN(rapid.Byte(), 4, 4).Draw(rt, "burstMask")
			pos := burstPositions(start, width, mask, nbits)
			if len(pos) == 0 {
				continue
			}
			nt, err := detect(c, raw, pos, t)
			loc.Case("burst", evid.NewH().Bytes(raw[:8]).I(len(raw)).I(start).I(width).Bytes(mask).Sum(), nt)
			if err != nil {
				c.Bit, c.Width, c.Mask = start, width, toHex(mask)

				return c, err
			}
		}
	}

	return c, nil
}

// burstPositions lists the flipped bit positions of a burst: the first and
// last bit of the window are always flipped, inner bits follow mask.
func burstPositions(start, width int, mask []byte, nbits int) []int {
	var out []int
	for i := 0; i < width; i++ {
		p := start + i
		if p >= nbits {
			break
		}
		set := i == 0 || i == width-1
		if !set && i/8 < len(mask) && mask[i/8]&(1<<(i%8)) != 0 {
			set = true
		}
		if set {
			out = append(out, p)
		}
	}

	return out
}

func c05Notes(rec *evid.Rec) {
	rec.Note("rule", "(i) verifier: decodable messages with FINGERPRINT attributes of length {4,0,1,3,5,8,20} at any position (last, or followed by other attributes), trailing bytes, dirty padding; value = reference / "+
		"reference over a span one word short or long / un-XORed CRC / one bit off / random: Fingerprint.Check==nil iff first FINGERPRINT is 4 bytes equal to bitwise CRC-32(raw[:len-8]) xor 0x5354554e, message unchanged. "+
		"(ii) messages built with the library (random typed/raw attributes, with and without MESSAGE-INTEGRITY) and fingerprinted: value == reference, check passes; every single-bit flip (messages <= 320 bytes) and random bursts "+
		"of 2..32 bits (first and last bit of the window flipped, inner bits random; start near the header, near the FINGERPRINT TLV, anywhere) must be detected: Decode fails, or Check fails, or the message no longer has exactly one FINGERPRINT. "+
		"Non-trivial: near-miss values in (i); corruptions after which the message still decodes in (ii). Distinct by content.")
	rec.Note("assumptions", []string{"harness/ref.CRC32 is the bitwise reflected IEEE CRC-32 (cross-checked against hash/crc32 at start-up)",
		"the fingerprint setter is applied to exact-length messages without an earlier FINGERPRINT (DESIGN D2)"})
}

func TestC05_Verify(t *testing.T) {
	rec := evid.For("C05")
	c05Notes(rec)
	pbt.Check(t, rec, "verify", evid.Pick(40000, 300000), func(rt *rapid.T) (any, error) {
		c, near := genC05Verify(rt)
		rec.Case("verify:"+c.Variant, evid.NewH().Str(c.Raw).Sum(), near, func() any { return c })

		return c, runC05Verify(c)
	})
}

func TestC05_FlipBurst(t *testing.T) {
	rec := evid.For("C05")
	c05Notes(rec)
	pbt.Check(t, rec, "flip", evid.Pick(300, 6000), func(rt *rapid.T) (any, error) {
		c := c05Flip{Bit: -1, Bursts: 60}
		n := rapid.IntRange(0, 6).Draw(rt, "nBefore")
		for i := 0; i < n; i++ {
			if rapid.IntRange(0, 5).Draw(rt, "hdr") == 0 {
				c.Before = append(c.Before, genHeaderOp(rt))
			} else {
				c.Before = append(c.Before, sanitizeSeal(genAttrOp(rt, false, 48), true))
			}
		}
		if rapid.Bool().Draw(rt, "withMI") {
			c.Before = append(c.Before, bop{Kind: "mi", Key: toHex(genKey(rt))})
		}
		c.Start = genDecodedStart(rt)
		rec.Case("message", evid.NewH().Str(fmt.Sprint(c.Before)).Sum(), false, nil)

		return runC05Flip(c, rec, rt)
	})
}

func TestC05_Replay(t *testing.T) { replayAll(t, "C05") }

// startThenApply builds the message the seal is added to: from scratch (Build with the setters), or
// by decoding a wire message - possibly followed by trailing bytes, which a successful decode
// tolerates - and then applying the operations one by one.
func startThenApply(start *bop, before []bop) (*builder, error) {
	if start == nil {
		return startBuilder(bop{Kind: "start-build", Sub: before})
	}
	b, err := startBuilder(*start)
	if err != nil {
		return nil, err
	}
	for _, o := range before {
		if err := b.apply(o); err != nil {
			return nil, err
		}
	}

	return b, nil
}

// genDecodedStart: in a third of the cases the message starts life as a decoded one.
func genDecodedStart(rt *rapid.T) *bop {
	if rapid.IntRange(0, 2).Draw(rt, "decodedStart") != 0 {
		return nil
	}
	w := gen.WireMsg(rt, 6, 300, true)
	dropAlias(&w)
	for i := range w.Attrs {
		switch w.Attrs[i].Type {
		case 0x0008:
			w.Attrs[i].Type = 0x7F10
		case 0x8028:
			w.Attrs[i].Type = 0x7F11
		}
	}
	kind := rapid.SampledFrom([]string{"start-decode-trailing", "start-decode-trailing", "start-decode", "start-decode-dirty"}).Draw(rt, "startKind")
	w.Trailing = nil
	if kind == "start-decode-trailing" {
		w.Trailing = rapid.SliceOfN(rapid.Byte(), 1, 64).Draw(rt, "trailing")
	}

	return &bop{Kind: kind, Val: toHex(w.Bytes())}
}

// sanitizeSeal remaps attribute types that would put an earlier
// MESSAGE-INTEGRITY / FINGERPRINT into a message about to be signed.
func sanitizeSeal(o bop, alsoFP bool) bop {
	if o.Type == 0x0008 {
		o.Type = 0x0006
	}
	if alsoFP && o.Type == 0x8028 {
		o.Type = 0x8022
	}

	return o
}

func init() {
	replayers["C05/verify"] = func(raw json.RawMessage) error {
		var c c05Verify
		if err := json.Unmarshal(raw, &c); err != nil {
			return err
		}

		return runC05Verify(c)
	}
	replayers["C05/flip"] = func(raw json.RawMessage) error {
		var c c05Flip
		if err := json.Unmarshal(raw, &c); err != nil {
			return err
		}
		_, err := runC05Flip(c, nil, nil)

		return err
	}
}
