package codec

import (
	"encoding/hex"
	"os"
	"path/filepath"
	"regexp"
	"strconv"
	"testing"

	"github.com/pion/stun/v3/verifharness/evid"
	"github.com/pion/stun/v3/verifharness/gen"
	"github.com/pion/stun/v3/verifharness/ref"
	"pgregory.net/rapid"
)

// Native coverage-guided fuzz targets (thorough tier only). Each carries the
// same semantic oracle as the rapid property of its property - never
// crash-only. A failing input is written as an ordinary replay file by the
// worker process (VERIF_REPLAY_DIR), so it replays through ./check --replay.

const rfc5769Request = "000100582112a442b7e7a701bc34d686fa87dfae802200105354554e207465737420636c69656e74" +
	"002400046e0001ff80290008932ff9b151263b36000600096576746a3a68367659202020" +
	"000800149aeaa70cbfd8cb56781ef2b5b2d3f249c1b571a280280004e57a3bcf"

var corpusLine = regexp.MustCompile(`^\[\]byte\((".*")\)$`)

// repoCorpus loads the byte-slice seeds of one of the repository's own fuzz corpora.
func repoCorpus(name string) [][]byte {
	var out [][]byte
	files, _ := filepath.Glob(filepath.Join("/repo/testdata/fuzz", name, "*"))
	for _, f := range files {
		b, err := os.ReadFile(f)
		if err != nil {
			continue
		}
		for _, line := range regexp.MustCompile(`\r?\n`).Split(string(b), -1) {
			if m := corpusLine.FindStringSubmatch(line); m != nil {
				if s, err := strconv.Unquote(m[1]); err == nil {
					out = append(out, []byte(s))
				}
			}
		}
	}

	return out
}

func seedDecodeCorpus(f *testing.F) {
	f.Helper()
	r, _ := hex.DecodeString(rfc5769Request)
	f.Add(r, uint8(0))
	f.Add([]byte{}, uint8(0))
	for _, b := range repoCorpus("FuzzMessage") {
		f.Add(b, uint8(1))
	}
	for i := 0; i < 24; i++ {
		w := rapid.Custom(func(t *rapid.T) []byte { return gen.WireMsg(t, 6, 200, false).Bytes() }).Example(i)
		f.Add(w, uint8(i))
	}
	// hostile constants: length fields at their extremes
	f.Add([]byte{0, 1, 0xFF, 0xFF, 0x21, 0x12, 0xA4, 0x42, 1, 2, 3, 4, 5, 6, 7, 8, 9, 10, 11, 12}, uint8(0))
	f.Add([]byte{0, 1, 0, 8, 0x21, 0x12, 0xA4, 0x42, 1, 2, 3, 4, 5, 6, 7, 8, 9, 10, 11, 12, 0, 6, 0xFF, 0xFF, 1, 2, 3, 4}, uint8(0))
	f.Add([]byte{0, 1, 0, 8, 0x21, 0x12, 0xA4, 0x42, 1, 2, 3, 4, 5, 6, 7, 8, 9, 10, 11, 12, 0x80, 0x20, 0, 1, 1, 2, 3, 4}, uint8(3))
}

func fuzzInput(data []byte, knob uint8) decodeCase {
	if len(data) >= 8 && knob&0x80 == 0 {
		// like the repository's own target: force the cookie so the fuzzer gets past the header
		data = append([]byte(nil), data...)
		copy(data[4:8], []byte{0x21, 0x12, 0xA4, 0x42})
	}
	caps := []int{0, 0, 1, 3, 4, 64}

	return decodeCase{Input: toHex(data), ExtraCap: caps[int(knob)%len(caps)], Poison: 0xA5 ^ knob, Source: "fuzz"}
}

func FuzzDecodeAll(f *testing.F) {
	seedDecodeCorpus(f)
	rec := evid.For("C01")
	f.Fuzz(func(t *testing.T, data []byte, knob uint8) {
		if len(data) > 65555 {
			return
		}
		c := fuzzInput(data, knob)
		if fc, err := runC01(c, knob%8 == 0); err != nil {
			rec.Violation("decode", fc, err.Error())
			t.Fatalf("C01: %v", err)
		}
	})
}

func FuzzDecodeDiff(f *testing.F) {
	seedDecodeCorpus(f)
	rec := evid.For("C02")
	f.Fuzz(func(t *testing.T, data []byte, knob uint8) {
		if len(data) > 65555 {
			return
		}
		dc := fuzzInput(data, knob)
		c := c02Case{Input: dc.Input, FailAt: int(knob % 4), Source: "fuzz"}
		if err := runC02(c); err != nil {
			rec.Violation("decode", c, err.Error())
			t.Fatalf("C02: %v", err)
		}
	})
}

// FuzzGetters decodes bytes into (getter, value, layout) and applies C07's twin oracle.
func FuzzGetters(f *testing.F) {
	for i, g := range c07Getters {
		f.Add(uint8(i), []byte{0, 1, 0x12, 0x34, 1, 2, 3, 4}, []byte{1, 2, 3, 4, 5, 6, 7, 8, 9, 10, 11, 12, 13, 14, 15, 16, 17, 18, 19, 20}, uint8(i))
		f.Add(uint8(i), []byte{}, []byte{9}, uint8(0))
		_ = g
	}
	for _, b := range repoCorpus("FuzzSetters") {
		f.Add(uint8(len(b)), b, b, uint8(len(b)))
	}
	rec := evid.For("C07")
	f.Fuzz(func(t *testing.T, which uint8, val []byte, noise []byte, knob uint8) {
		if len(val) > 800 || len(noise) == 0 {
			return
		}
		g := c07Getters[int(which)%len(c07Getters)]
		ni := 0
		fill := func(n int) []byte {
			out := make([]byte, n)
			for i := range out {
				out[i] = noise[ni%len(noise)] + byte(ni/len(noise))
				ni++
			}

			return out
		}
		caps := []int{0, 1, 2, 3, 4, 64}
		key := fill(int(knob) % 70)
		c := mkC07(g, uint16(0x7E00|uint16(knob)), val, int(knob)%3, caps[int(knob/3)%6], caps[int(knob/18)%6], fill, key)
		if knob&1 == 1 {
			c.PrevIP = toHex(fill(4 + 12*int(knob>>7)))
		}
		if err := runC07(c); err != nil {
			rec.Violation("twin", c, err.Error())
			t.Fatalf("C07: %v", err)
		}
	})
}

// sealCorpus seeds the two seal targets with RFC 5769 and generated messages that hold
// MESSAGE-INTEGRITY / FINGERPRINT at several positions.
func seedSealCorpus(f *testing.F, withKey bool) {
	f.Helper()
	r, _ := hex.DecodeString(rfc5769Request)
	add := func(b []byte, k []byte, knob uint8) {
		if withKey {
			f.Add(b, k, knob)
		} else {
			f.Add(b, knob)
		}
	}
	add(r, []byte("VOkJxbRl1RmTxUk/WvJxBt"), 0)
	add(r, []byte("VOkJxbRl1RmTxUk/WvJxBt"), 1)
	for i := 0; i < 24; i++ {
		c := rapid.Custom(func(t *rapid.T) c04Verify { c, _ := genC04Verify(t); return c }).Example(i)
		add(unHex(c.Raw), unHex(c.Key), uint8(i))
		d := rapid.Custom(func(t *rapid.T) c05Verify { c, _ := genC05Verify(t); return c }).Example(i)
		add(unHex(d.Raw), []byte{byte(i)}, uint8(i))
	}
}

// FuzzIntegrityVerdict: any decodable byte string x any key: Check == nil iff RFC 5389 15.4
// verdict (ref.MIVerdict), and Check leaves the message as it was. The fuzzer cannot guess an
// HMAC, so an odd knob writes the correct MAC (for the covered span of the first
// MESSAGE-INTEGRITY attribute) into that attribute's first min(len,20) bytes; knob bit 1 then
// flips one bit of it again.
func FuzzIntegrityVerdict(f *testing.F) {
	seedSealCorpus(f, true)
	rec := evid.For("C04")
	f.Fuzz(func(t *testing.T, data []byte, key []byte, knob uint8) {
		if len(data) > 9000 || len(key) > 300 {
			return
		}
		raw := unHex(fuzzInput(data, 0).Input)
		r, ok := ref.Parse(raw)
		if !ok {
			return
		}
		variant := "fuzz"
		if a, has := r.First(0x0008); has && knob&1 == 1 {
			good := ref.HMACSHA1(key, ref.MICovered(raw, a.Off))
			n := copy(raw[20+a.Off:20+a.Off+a.Len], good)
			variant = "fuzz-correct"
			if knob&2 == 2 && n > 0 {
				p := int(knob>>2) % (n * 8)
				raw[20+a.Off+p/8] ^= 1 << (p % 8)
				variant = "fuzz-bitflip"
			}
		}
		caps := []int{0, 1, 20, 64}
		c := c04Verify{Raw: toHex(raw), Key: toHex(key), Variant: variant, Extra: caps[int(knob>>6)]}
		if err := runC04Verify(c); err != nil {
			rec.Violation("verify", c, err.Error())
			t.Fatalf("C04: %v", err)
		}
	})
}

// FuzzFingerprintVerdict: any decodable byte string: Fingerprint.Check == nil iff the C05 iff
// (ref.FPVerdict); an odd knob writes the reference CRC into the first FINGERPRINT attribute
// (when it has 4 bytes), knob bit 1 flips one bit anywhere in the message afterwards.
func FuzzFingerprintVerdict(f *testing.F) {
	seedSealCorpus(f, false)
	rec := evid.For("C05")
	f.Fuzz(func(t *testing.T, data []byte, knob uint8) {
		if len(data) > 9000 {
			return
		}
		raw := unHex(fuzzInput(data, 0).Input)
		r, ok := ref.Parse(raw)
		if !ok {
			return
		}
		variant := "fuzz"
		if a, has := r.First(0x8028); has && a.Len == 4 && knob&1 == 1 && len(raw) >= 8 {
			put32(raw[20+a.Off:], ref.Fingerprint(raw[:len(raw)-8]))
			variant = "fuzz-correct"
			if knob&2 == 2 {
				p := (int(knob>>2) * 131) % (len(raw) * 8)
				raw[p/8] ^= 1 << (p % 8)
				variant = "fuzz-bitflip"
				if _, ok := ref.Parse(raw); !ok {
					return
				}
			}
		}
		caps := []int{0, 1, 4, 64}
		c := c05Verify{Raw: toHex(raw), Variant: variant, Extra: caps[int(knob>>6)]}
		if err := runC05Verify(c); err != nil {
			rec.Violation("verify", c, err.Error())
			t.Fatalf("C05: %v", err)
		}
	})
}

// FuzzBuildTrace / FuzzReuse: the rapid generators of C03 and C08 driven by the native
// fuzzer's byte stream (rapid.MakeFuzz), so that coverage of message.go / the setters guides
// the choice of operation sequences; same oracles as the rapid runs.
func FuzzBuildTrace(f *testing.F) {
	rec := evid.For("C03")
	f.Fuzz(rapid.MakeFuzz(func(rt *rapid.T) {
		c := c03Case{Start: genStart(rt)}
		c.Ops = rapid.SliceOfN(rapid.Custom(genStep), 1, 40).Draw(rt, "ops")
		if _, err := runC03(c); err != nil {
			rec.Violation("trace", c, err.Error())
			rt.Fatalf("C03: %v", err)
		}
	}))
}

// FuzzReuse: three successive decode-type uses (entry point chosen per use by the knob, an
// Encode() from the current fields optionally in between) of one Message, each from fuzzer
// bytes with the cookie forced; C08's fresh-twin oracle after every use. (A rapid.MakeFuzz
// version of the whole C08 generator was tried first: in 60 s from an empty corpus it did
// not reach the size relations seeded changes C08b/C08c need; this byte-level one does.)
func FuzzReuse(f *testing.F) {
	for i := 0; i < 16; i++ {
		w := func(k, budget int) []byte {
			return rapid.Custom(func(t *rapid.T) []byte { return gen.WireMsg(t, 6, budget, false).Bytes() }).Example(k)
		}
		f.Add(w(i, 400), w(i+100, 60), w(i+200, 200), uint16(i*37))
		f.Add(w(i, 60), w(i+100, 400), w(i+200, 20), uint16(i*101+7))
	}
	r, _ := hex.DecodeString(rfc5769Request)
	f.Add(r, r[:20], r, uint16(0))
	rec := evid.For("C08")
	kinds := []string{"decode", "write", "unmarshal", "gobdecode", "readfrom", "cloneto"}
	f.Fuzz(func(t *testing.T, d1, d2, d3 []byte, knob uint16) {
		if len(d1) > 4000 || len(d2) > 4000 || len(d3) > 4000 {
			return
		}
		c := c08Case{Poison: []byte{0xA5, 0xFF, 0x01, 0x80}[knob>>14]}
		k := int(knob)
		for i, d := range [][]byte{d1, d2, d3} {
			c.Uses = append(c.Uses, use{Kind: kinds[k%6], Wire: fuzzInput(d, 0).Input})
			k /= 6
			if i < 2 && k%5 == 0 {
				c.Uses = append(c.Uses, use{Kind: "encode"})
			}
			k /= 5
		}
		if _, err := runC08(c); err != nil {
			rec.Violation("history", c, err.Error())
			t.Fatalf("C08: %v", err)
		}
	})
}
