package codec

import (
	"encoding/hex"
	"os"
	"path/filepath"
	"regexp"
	"strconv"
	"testing"

	"github.com/pion/stun/v3/verifharness/evid"
	"github.com/pion/stun/v3/verifharness/gen"
	"pgregory.net/rapid"
)

// Native coverage-guided fuzz targets (thorough tier only). Each carries the
// same semantic oracle as the rapid property of its property - never
// crash-only. A failing input is written as an ordinary replay file by the
// worker process (VERIF_REPLAY_DIR), so it replays through ./check --replay.

const rfc5769Request = "000100582112a442b7e7a701bc34d686fa87dfae802200105354554e207465737420636c69656e74" +
	"002400046e0001ff80290008932ff9b151263b36000600096576746a3a68367659202020" +
	"000800149aeaa70cbfd8cb56781ef2b5b2d3f249c1b571a280280004e57a3bcf"

var corpusLine = regexp.MustCompile(`^\[\]byte\((".*")\)$`)

// repoCorpus loads the byte-slice seeds of one of the repository's own fuzz corpora.
func repoCorpus(name string) [][]byte {
	var out [][]byte
	files, _ := filepath.Glob(filepath.Join("/repo/testdata/fuzz", name, "*"))
	for _, f := range files {
		b, err := os.ReadFile(f)
		if err != nil {
			continue
		}
		for _, line := range regexp.MustCompile(`\r?\n`).Split(string(b), -1) {
			if m := corpusLine.FindStringSubmatch(line); m != nil {
				if s, err := strconv.Unquote(m[1]); err == nil {
					out = append(out, []byte(s))
				}
			}
		}
	}

	return out
}

func seedDecodeCorpus(f *testing.F) {
	f.Helper()
	r, _ := hex.DecodeString(rfc5769Request)
	f.Add(r, uint8(0))
	f.Add([]byte{}, uint8(0))
	for _, b := range repoCorpus("FuzzMessage") {
		f.Add(b, uint8(1))
	}
	for i := 0; i < 24; i++ {
		w := rapid.Custom(func(t *rapid.T) []byte { return gen.WireMsg(t, 6, 200, false).Bytes() }).Example(i)
		f.Add(w, uint8(i))
	}
	// hostile constants: length fields at their extremes
	f.Add([]byte{0, 1, 0xFF, 0xFF, 0x21, 0x12, 0xA4, 0x42, 1, 2, 3, 4, 5, 6, 7, 8, 9, 10, 11, 12}, uint8(0))
	f.Add([]byte{0, 1, 0, 8, 0x21, 0x12, 0xA4, 0x42, 1, 2, 3, 4, 5, 6, 7, 8, 9, 10, 11, 12, 0, 6, 0xFF, 0xFF, 1, 2, 3, 4}, uint8(0))
	f.Add([]byte{0, 1, 0, 8, 0x21, 0x12, 0xA4, 0x42, 1, 2, 3, 4, 5, 6, 7, 8, 9, 10, 11, 12, 0x80, 0x20, 0, 1, 1, 2, 3, 4}, uint8(3))
}

func fuzzInput(data []byte, knob uint8) decodeCase {
	if len(data) >= 8 && knob&0x80 == 0 {
		// like the repository's own target: force the cookie so the fuzzer gets past the header
		data = append([]byte(nil), data...)
		copy(data[4:8], []byte{0x21, 0x12, 0xA4, 0x42})
	}
	caps := []int{0, 0, 1, 3, 4, 64}

	return decodeCase{Input: toHex(data), ExtraCap: caps[int(knob)%len(caps)], Poison: 0xA5 ^ knob, Source: "fuzz"}
}

func FuzzDecodeAll(f *testing.F) {
	seedDecodeCorpus(f)
	rec := evid.For("C01")
	f.Fuzz(func(t *testing.T, data []byte, knob uint8) {
		if len(data) > 65555 {
			return
		}
		c := fuzzInput(data, knob)
		if fc, err := runC01(c, knob%8 == 0); err != nil {
			rec.Violation("decode", fc, err.Error())
			t.Fatalf("C01: %v", err)
		}
	})
}

func FuzzDecodeDiff(f *testing.F) {
	seedDecodeCorpus(f)
	rec := evid.For("C02")
	f.Fuzz(func(t *testing.T, data []byte, knob uint8) {
		if len(data) > 65555 {
			return
		}
		dc := fuzzInput(data, knob)
		c := c02Case{Input: dc.Input, FailAt: int(knob % 4), Source: "fuzz"}
		if err := runC02(c); err != nil {
			rec.Violation("decode", c, err.Error())
			t.Fatalf("C02: %v", err)
		}
	})
}

// FuzzGetters decodes bytes into (getter, value, layout) and applies C07's twin oracle.
func FuzzGetters(f *testing.F) {
	for i, g := range c07Getters {
		f.Add(uint8(i), []byte{0, 1, 0x12, 0x34, 1, 2, 3, 4}, []byte{1, 2, 3, 4, 5, 6, 7, 8, 9, 10, 11, 12, 13, 14, 15, 16, 17, 18, 19, 20}, uint8(i))
		f.Add(uint8(i), []byte{}, []byte{9}, uint8(0))
		_ = g
	}
	for _, b := range repoCorpus("FuzzSetters") {
		f.Add(uint8(len(b)), b, b, uint8(len(b)))
	}
	rec := evid.For("C07")
	f.Fuzz(func(t *testing.T, which uint8, val []byte, noise []byte, knob uint8) {
		if len(val) > 800 || len(noise) == 0 {
			return
		}
		g := c07Getters[int(which)%len(c07Getters)]
		ni := 0
		fill := func(n int) []byte {
			out := make([]byte, n)
			for i := range out {
				out[i] = noise[ni%len(noise)] + byte(ni/len(noise))
				ni++
			}

			return out
		}
		caps := []int{0, 1, 2, 3, 4, 64}
		key := fill(int(knob) % 70)
		c := mkC07(g, uint16(0x7E00|uint16(knob)), val, int(knob)%3, caps[int(knob/3)%6], caps[int(knob/18)%6], fill, key)
		if knob&1 == 1 {
			c.PrevIP = toHex(fill(4 + 12*int(knob>>7)))
		}
		if err := runC07(c); err != nil {
			rec.Violation("twin", c, err.Error())
			t.Fatalf("C07: %v", err)
		}
	})
}
