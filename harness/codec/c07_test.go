package codec

import (
	"bytes"
	"encoding/json"
	"fmt"
	"net"
	"testing"

	"github.com/pion/stun/v3"
	"github.com/pion/stun/v3/verifharness/evid"
	"github.com/pion/stun/v3/verifharness/gen"
	"github.com/pion/stun/v3/verifharness/pbt"
	"github.com/pion/stun/v3/verifharness/ref"
	"pgregory.net/rapid"
)

// wattr is a wire attribute in a replay file.
type wattr struct {
	T uint16 `json:"t"`
	V hx     `json:"v"`
}

// c07Layout is everything around the target value that the outcome must not
// depend on.
type c07Layout struct {
	Before   []wattr `json:"before,omitempty"`
	After    []wattr `json:"after,omitempty"`
	Pad      hx      `json:"pad,omitempty"` // padding bytes used for every attribute, in order
	ExtraCap int     `json:"extra_cap"`
	Poison   byte    `json:"poison"`
}

type c07Case struct {
	Getter string    `json:"getter"`
	Type   uint16    `json:"type"`
	Val    hx        `json:"val"`
	TID    hx        `json:"tid"`
	Key    hx        `json:"key,omitempty"`
	PrevIP hx        `json:"prev_ip,omitempty"`
	A      c07Layout `json:"a"`
	B      c07Layout `json:"b"`
}

var c07Getters = []string{"xor", "xoras", "mapped", "mappedas", "alt", "origin", "other", "username", "realm", "nonce", "software",
	"errattr", "unknown", "mi", "fp", "parse"}

func c07Type(getter string, t uint16) uint16 {
	switch getter {
	case "xor", "parse":
		return 0x0020
	case "mapped":
		return 0x0001
	case "alt":
		return 0x8023
	case "origin":
		return 0x802b
	case "other":
		return 0x802c
	case "username":
		return 0x0006
	case "realm":
		return 0x0014
	case "nonce":
		return 0x0015
	case "software":
		return 0x8022
	case "errattr":
		return 0x0009
	case "unknown":
		return 0x000A
	case "mi":
		return 0x0008
	case "fp":
		return 0x8028
	}

	return t
}

// layoutBytes renders one twin.
func layoutBytes(c c07Case, l c07Layout) []byte {
	var tid [12]byte
	copy(tid[:], unHex(c.TID))
	var attrs []ref.EAttr
	for _, a := range l.Before {
		attrs = append(attrs, ref.EAttr{Type: a.T, Value: unHex(a.V)})
	}
	attrs = append(attrs, ref.EAttr{Type: c07Type(c.Getter, c.Type), Value: unHex(c.Val)})
	for _, a := range l.After {
		attrs = append(attrs, ref.EAttr{Type: a.T, Value: unHex(a.V)})
	}

	return ref.EncodeWith(0x0101, tid, attrs, unHex(l.Pad), nil)
}

// outcome is everything observable from one getter/checker call.
type c07Outcome struct {
	err   string
	value string
}

func errStr(err error) string {
	if err == nil {
		return "<nil>"
	}

	return err.Error()
}

// callGetter runs the getter on m with an identically initialised destination:
// one that carries the remains of an earlier use, or (fresh) a zero value.
func callGetter(c c07Case, m *stun.Message, fresh bool) c07Outcome {
	prev := net.IP(unHex(c.PrevIP))
	if len(prev) == 0 || fresh {
		prev = nil
	}
	old, oldPort, oldCode := "old", 7, stun.ErrorCode(1)
	oldUnknown := stun.UnknownAttributes{1, 2, 3}
	if fresh {
		old, oldPort, oldCode, oldUnknown = "", 0, 0, nil
	}
	t := stun.AttrType(c.Type)
	switch c.Getter {
	case "xor":
		a := &stun.XORMappedAddress{IP: prev, Port: oldPort}
		err := a.GetFrom(m)

		return c07Outcome{errStr(err), fmt.Sprintf("%x|%d", []byte(a.IP), a.Port)}
	case "xoras":
		a := &stun.XORMappedAddress{IP: prev, Port: oldPort}
		err := a.GetFromAs(m, t)

		return c07Outcome{errStr(err), fmt.Sprintf("%x|%d", []byte(a.IP), a.Port)}
	case "mapped":
		a := &stun.MappedAddress{IP: prev, Port: oldPort}
		err := a.GetFrom(m)

		return c07Outcome{errStr(err), fmt.Sprintf("%x|%d", []byte(a.IP), a.Port)}
	case "mappedas":
		a := &stun.MappedAddress{IP: prev, Port: oldPort}
		err := a.GetFromAs(m, t)

		return c07Outcome{errStr(err), fmt.Sprintf("%x|%d", []byte(a.IP), a.Port)}
	case "alt":
		a := &stun.AlternateServer{IP: prev, Port: oldPort}
		err := a.GetFrom(m)

		return c07Outcome{errStr(err), fmt.Sprintf("%x|%d", []byte(a.IP), a.Port)}
	case "origin":
		a := &stun.ResponseOrigin{IP: prev, Port: oldPort}
		err := a.GetFrom(m)

		return c07Outcome{errStr(err), fmt.Sprintf("%x|%d", []byte(a.IP), a.Port)}
	case "other":
		a := &stun.OtherAddress{IP: prev, Port: oldPort}
		err := a.GetFrom(m)

		return c07Outcome{errStr(err), fmt.Sprintf("%x|%d", []byte(a.IP), a.Port)}
	case "username":
		a := stun.Username(old)
		err := a.GetFrom(m)

		return c07Outcome{errStr(err), fmt.Sprintf("%x", []byte(a))}
	case "realm":
		a := stun.Realm(old)
		err := a.GetFrom(m)

		return c07Outcome{errStr(err), fmt.Sprintf("%x", []byte(a))}
	case "nonce":
		a := stun.Nonce(old)
		err := a.GetFrom(m)

		return c07Outcome{errStr(err), fmt.Sprintf("%x", []byte(a))}
	case "software":
		a := stun.Software(old)
		err := a.GetFrom(m)

		return c07Outcome{errStr(err), fmt.Sprintf("%x", []byte(a))}
	case "errattr":
		a := &stun.ErrorCodeAttribute{Code: oldCode, Reason: []byte(old)}
		err := a.GetFrom(m)

		return c07Outcome{errStr(err), fmt.Sprintf("%d|%x", a.Code, a.Reason)}
	case "unknown":
		a := oldUnknown
		err := a.GetFrom(m)

		return c07Outcome{errStr(err), fmt.Sprintf("%v", []stun.AttrType(a))}
	case "mi":
		err := stun.MessageIntegrity(unHex(c.Key)).Check(m)

		return c07Outcome{errStr(err), ""}
	case "fp":
		err := stun.Fingerprint.Check(m)

		return c07Outcome{errStr(err), ""}
	case "parse":
		// batches: Parse stops at the first failing getter; Check likewise
		x := &stun.XORMappedAddress{IP: prev}
		u := stun.Username(old)
		e := &stun.ErrorCodeAttribute{}
		err := m.Parse(x, &u, e)
		cerr := m.Check(stun.Fingerprint, stun.MessageIntegrity(unHex(c.Key)))
		// sequential reference for the batch semantics
		x2 := &stun.XORMappedAddress{IP: append(net.IP(nil), prev...)}
		u2 := stun.Username(old)
		e2 := &stun.ErrorCodeAttribute{}
		var serr error
		for _, g := range []stun.Getter{x2, &u2, e2} {
			if serr = g.GetFrom(m); serr != nil {
				break
			}
		}
		if errStr(err) != errStr(serr) {
			return c07Outcome{"Parse batch returned " + errStr(err) + " but applying the getters in order gives " + errStr(serr), "BATCH-MISMATCH"}
		}
		var scerr error
		for _, ck := range []stun.Checker{stun.Fingerprint, stun.MessageIntegrity(unHex(c.Key))} {
			if scerr = ck.Check(m); scerr != nil {
				break
			}
		}
		if errStr(cerr) != errStr(scerr) {
			return c07Outcome{"Check batch returned " + errStr(cerr) + " but applying the checkers in order gives " + errStr(scerr), "BATCH-MISMATCH"}
		}

		return c07Outcome{errStr(err) + "/" + errStr(cerr), fmt.Sprintf("%x|%d|%x|%d|%x", []byte(x.IP), x.Port, []byte(u), e.Code, e.Reason)}
	}

	return c07Outcome{"harness: unknown getter " + c.Getter, ""}
}

// runTwin decodes one layout, calls the getter, checks the snapshot.
func runTwin(c c07Case, l c07Layout, which string) (c07Outcome, error) {
	raw := layoutBytes(c, l)
	m := new(stun.Message)
	m.Raw = gen.Arena(raw, l.ExtraCap, l.Poison)
	if err := m.Decode(); err != nil {
		return c07Outcome{}, fmt.Errorf("harness: twin %s does not decode: %w", which, err)
	}
	before := snapMsg(m)
	var out c07Outcome
	var perr error
	var outFresh c07Outcome
	guarded("C07", "twin", c, func() {
		perr = pbt.Safely(func() {
			out = callGetter(c, m, false)
			outFresh = callGetter(c, m, true)
		})
	})
	if perr != nil {
		return out, fmt.Errorf("twin %s (value %d bytes, extra capacity %d): %w", which, len(c.Val)/2, l.ExtraCap, perr)
	}
	if out.value == "BATCH-MISMATCH" {
		return out, fmt.Errorf("twin %s: %s", which, out.err)
	}
	if derr := before.diff(m); derr != nil {
		return out, fmt.Errorf("twin %s: %s (outcome %s) modified the message: %w", which, c.Getter, out.err, derr)
	}
	// the outcome is a function of the attribute value: what the destination held before must not show
	if out.err != outFresh.err || (out.err == "<nil>" && out.value != outFresh.value) {
		return out, fmt.Errorf("twin %s: %s on the %d-byte value %s depends on what the destination held before: previously used destination -> (%s, %s), zero-value destination -> (%s, %s)",
			which, c.Getter, len(c.Val)/2, c.Val, out.err, out.value, outFresh.err, outFresh.value)
	}

	return out, nil
}

func runC07(c c07Case) error {
	oa, err := runTwin(c, c.A, "A")
	if err != nil {
		return err
	}
	ob, err := runTwin(c, c.B, "B")
	if err != nil {
		return err
	}
	if oa != ob {
		return fmt.Errorf("%s on the same %d-byte value %s gives different outcomes on twins that differ only outside the value: A -> (%s, %s), B -> (%s, %s)",
			c.Getter, len(c.Val)/2, c.Val, oa.err, oa.value, ob.err, ob.value)
	}
	// (d) where the RFC defines the answer, it is the reference decode
	val := unHex(c.Val)
	var tid [12]byte
	copy(tid[:], unHex(c.TID))
	switch c.Getter {
	case "xor", "xoras":
		if ip, port, rerr := ref.DecodeXor(val, tid); rerr == nil {
			if want := fmt.Sprintf("%x|%d", ip, port); oa.err != "<nil>" || oa.value != want {
				return fmt.Errorf("%s of a valid value %x: got (%s, %s), reference %s", c.Getter, val, oa.err, oa.value, want)
			}
		}
	case "mapped", "mappedas", "alt", "origin", "other":
		if ip, port, rerr := ref.DecodeMapped(val); rerr == nil {
			if want := fmt.Sprintf("%x|%d", ip, port); oa.err != "<nil>" || oa.value != want {
				return fmt.Errorf("%s of a valid value %x: got (%s, %s), reference %s", c.Getter, val, oa.err, oa.value, want)
			}
		}
	case "mi":
		want := ref.MIVerdict(layoutBytes(c, c.A), unHex(c.Key))
		if (oa.err == "<nil>") != want {
			return fmt.Errorf("integrity check outcome %s, reference verdict %v", oa.err, want)
		}
	case "fp":
		want := ref.FPVerdict(layoutBytes(c, c.A))
		if (oa.err == "<nil>") != want {
			return fmt.Errorf("fingerprint check outcome %s, reference verdict %v", oa.err, want)
		}
	}

	return nil
}

// mkC07 builds a twin case. fill draws bytes; pos: 0 first, 1 middle, 2 last.
func mkC07(getter string, typ uint16, val []byte, pos int, capA, capB int, fill func(n int) []byte, key []byte) c07Case {
	c := c07Case{Getter: getter, Type: typ, Val: toHex(val), TID: toHex(fill(12)), Key: toHex(key)}
	target := c07Type(getter, typ)
	other := func(n int) wattr {
		// an attribute type that no getter under test (nor the parse batch) looks for
		t := uint16(0x7F00) | uint16(fill(1)[0])
		if t == target {
			t ^= 1
		}

		return wattr{T: t, V: toHex(fill(n))}
	}
	switch getter {
	case "mi":
		// identical prefix up to and including the attribute; everything after differs
		if pos > 0 {
			c.A.Before = []wattr{other(int(fill(1)[0] % 9))}
			c.B.Before = c.A.Before
		}
		if pos < 2 {
			c.A.After = []wattr{other(int(fill(1)[0] % 7))}
		}
		c.B.After = []wattr{other(int(fill(1)[0]%7) + 1), other(3)}
		c.A.Pad, c.B.Pad = toHex(fill(3)), ""
		if len(c.A.Before) > 0 {
			// padding of the preceding attribute is covered: keep it equal
			pb := fill(3)
			c.A.Pad, c.B.Pad = toHex(append(append([]byte(nil), pb...), fill(3)...)), toHex(append(append([]byte(nil), pb...), 0, 0, 0))
		}
	case "fp":
		// same raw[:len-8]: only the final 8-byte attribute (or spare capacity) differs
		if pos > 0 {
			c.A.Before = []wattr{other(int(fill(1)[0] % 9))}
			c.B.Before = c.A.Before
		}
		pb := toHex(fill(6))
		c.A.Pad, c.B.Pad = pb, pb
		if pos < 2 {
			mid := other(int(fill(1)[0] % 6))
			la, lb := other(4), other(4)
			c.A.After = []wattr{mid, la}
			c.B.After = []wattr{mid, lb}
		}
	default:
		if pos > 0 {
			c.A.Before = []wattr{other(int(fill(1)[0] % 9))}
			c.B.Before = []wattr{other(int(fill(1)[0] % 9)), other(2)}
		}
		if pos < 2 {
			c.A.After = []wattr{other(int(fill(1)[0] % 7))}
		}
		if pos != 2 || fill(1)[0]%2 == 0 {
			c.B.After = []wattr{other(int(fill(1)[0]%7) + 1)}
		}
		c.A.Pad, c.B.Pad = toHex(fill(9)), toHex(fill(9))
	}
	c.A.ExtraCap, c.B.ExtraCap = capA, capB
	c.A.Poison, c.B.Poison = fill(1)[0], fill(1)[0]^0xFF

	return c
}

// structured returns value bytes that look like the getter's format so that
// deeper branches are reached with short and long values alike.
func structured(getter string, n int, fill func(int) []byte, variant int) []byte {
	v := fill(n)
	switch getter {
	case "xor", "xoras", "mapped", "mappedas", "alt", "origin", "other", "parse":
		if variant%3 != 0 {
			if n > 0 {
				v[0] = 0
			}
			if n > 1 {
				v[1] = byte(1 + variant%2)
			}
		}
	case "unknown", "errattr":
	}

	return v
}

func c07Sig(c c07Case, pos int) (uint64, bool) {
	n := len(c.Val) / 2
	mins := map[string]int{"xor": 5, "xoras": 5, "mapped": 5, "mappedas": 5, "alt": 5, "origin": 5, "other": 5, "errattr": 4, "mi": 20, "fp": 4, "parse": 5}
	nt := n < mins[c.Getter] || (c.A.ExtraCap == 0 && len(c.A.After) == 0) || n%4 != 0
	return evid.NewH().Str(c.Getter).I(int(c.Type)).I(n).I(pos).I(c.A.ExtraCap).I(c.B.ExtraCap).Str(c.Val).Sum(), nt
}

func c07Notes(rec *evid.Rec) {
	rec.Note("rule", "every typed getter and checker (XOR-MAPPED-ADDRESS GetFrom/GetFromAs, MAPPED-ADDRESS GetFrom/GetFromAs, ALTERNATE-SERVER, RESPONSE-ORIGIN, OTHER-ADDRESS, USERNAME, REALM, NONCE, SOFTWARE, "+
		"ERROR-CODE, UNKNOWN-ATTRIBUTES, MessageIntegrity.Check, Fingerprint.Check, Message.Parse/Check batches) x value length 0..40 (every length) x position first/middle/last x spare capacity {0,1,2,3,4,64} x "+
		"random and structured content (valid family bytes with short/long bodies). Each case is a pair of twin messages holding the same value bytes (same transaction id; same covered prefix for integrity; same raw[:len-8] for fingerprint) "+
		"but different padding bytes, neighbouring attributes, spare capacity and poison. Oracles: no panic; identical outcome on the twins (error text, decoded value, final state of an identically initialised destination); "+
		"Raw[:len]/Length/Attributes unchanged; reference decode where the value is valid. Non-trivial = value shorter than the getter's minimum, or target last with zero spare capacity, or len%4 != 0 (padding byte directly after the value differs).")
	rec.Note("assumptions", []string{"spare capacity Raw[len:cap] may be used as scratch by the integrity check (DESIGN D7); only visible bytes are compared",
		"the -tags debug build is checked by a second phase of the same tests"})
}

func TestC07_Grid(t *testing.T) {
	rec := evid.For("C07")
	c07Notes(rec)
	pool := poolBytes(1 << 16)
	pi := 0
	fill := func(n int) []byte {
		out := make([]byte, n)
		for i := range out {
			out[i] = pool[pi%len(pool)]
			pi++
		}

		return out
	}
	caps := []int{0, 1, 2, 3, 4, 64}
	reps := evid.Pick(1, 6)
	shard, nshards := evid.Shard()
	k := 0
	for rep := 0; rep < reps; rep++ {
		for _, g := range c07Getters {
			for n := 0; n <= 40; n++ {
				for pos := 0; pos < 3; pos++ {
					for ci, capA := range caps {
						for variant := 0; variant < 3; variant++ {
							k++
							if k%nshards != shard {
								fill(7) // keep shards on different pool offsets

								continue
							}
							typ := uint16(0x7E00 | uint16(fill(1)[0]))
							val := structured(g, n, fill, variant+rep)
							key := fill(int(fill(1)[0] % 70))
							c := mkC07(g, typ, val, pos, capA, caps[(ci+1+variant)%len(caps)], fill, key)
							if variant == 1 {
								c.PrevIP = toHex(fill(4))
							} else if variant == 2 {
								c.PrevIP = toHex(fill(16))
							}
							sig, nt := c07Sig(c, pos)
							rec.Case(g, sig, nt, func() any { return c })
							if err := runC07(c); err != nil {
								pbt.Fail(t, rec, "twin", c, "%v", err)

								return
							}
						}
					}
				}
			}
		}
	}
	rec.Exhaustive("getter x value length 0..40 x position x capacity grid", true)
}

func TestC07_Rapid(t *testing.T) {
	rec := evid.For("C07")
	c07Notes(rec)
	pbt.Check(t, rec, "twin", evid.Pick(8000, 200000), func(rt *rapid.T) (any, error) {
		g := rapid.SampledFrom(c07Getters).Draw(rt, "getter")
		n := rapid.OneOf(rapid.IntRange(0, 40), rapid.IntRange(0, 8), rapid.SampledFrom([]int{19, 20, 21, 24, 100, 763, 764})).Draw(rt, "n")
		fill := func(k int) []byte { return rapid.SliceOfN(rapid.Byte(), k, k).Draw(rt, "fill") }
		val := structured(g, n, fill, rapid.IntRange(0, 5).Draw(rt, "variant"))
		// valid MAC / CRC values so that the success paths of the checkers are twinned too
		pos := rapid.IntRange(0, 2).Draw(rt, "pos")
		capA := rapid.SampledFrom([]int{0, 0, 1, 2, 3, 4, 20, 64}).Draw(rt, "capA")
		capB := rapid.SampledFrom([]int{0, 1, 5, 64, 300}).Draw(rt, "capB")
		key := fill(rapid.IntRange(0, 80).Draw(rt, "keyLen"))
		c := mkC07(g, uint16(0x7E00|rapid.IntRange(0, 255).Draw(rt, "t")), val, pos, capA, capB, fill, key)
		if rapid.Bool().Draw(rt, "prev") {
			c.PrevIP = toHex(fill(rapid.SampledFrom([]int{4, 16}).Draw(rt, "prevLen")))
		}
		if (g == "mi" && n == 20) || (g == "fp" && n == 4) {
			if rapid.Bool().Draw(rt, "makeValid") {
				raw := layoutBytes(c, c.A)
				r, _ := ref.Parse(raw)
				if g == "mi" {
					a, _ := r.First(0x0008)
					c.Val = toHex(ref.HMACSHA1(key, ref.MICovered(raw, a.Off)))
				} else {
					v := make([]byte, 4)
					put32(v, ref.Fingerprint(raw[:len(raw)-8]))
					if a, _ := r.First(0x8028); 20+a.Off >= len(raw)-8 {
						c.Val = toHex(v)
					}
				}
			}
		}
		sig, nt := c07Sig(c, pos)
		rec.Case(g, sig, nt, func() any { return c })

		return c, runC07(c)
	})
}

func TestC07_Replay(t *testing.T) { replayAll(t, "C07") }

func init() {
	replayers["C07/twin"] = func(raw json.RawMessage) error {
		var c c07Case
		if err := json.Unmarshal(raw, &c); err != nil {
			return err
		}

		return runC07(c)
	}
}

var _ = bytes.Equal
