package codec

import (
	"bytes"
	"encoding/json"
	"fmt"
	"io"
	"runtime"
	"testing"
	"unsafe"

	"github.com/pion/stun/v3"
	"github.com/pion/stun/v3/verifharness/evid"
	"github.com/pion/stun/v3/verifharness/gen"
	"github.com/pion/stun/v3/verifharness/pbt"
	"github.com/pion/stun/v3/verifharness/ref"
	"pgregory.net/rapid"
)

// decodeCase is one input of C01 (and C02): bytes, buffer geometry, state of
// the target message.
type decodeCase struct {
	Input    hx     `json:"input"`
	ExtraCap int    `json:"extra_cap"`
	Poison   byte   `json:"poison"`
	Prior    hx     `json:"prior,omitempty"` // a valid message decoded into the target first ("" = fresh Message)
	Entry    string `json:"entry,omitempty"` // failing entry point (informational)
	Source   string `json:"source,omitempty"`
}

var entryPoints = []string{"Decode", "Message.Decode", "Write", "UnmarshalBinary", "GobDecode", "ReadFrom", "CloneTo"}

type sliceReader struct{ b []byte }

func (r *sliceReader) Read(p []byte) (int, error) {
	if len(r.b) == 0 {
		return 0, io.EOF
	}
	n := copy(p, r.b)
	r.b = r.b[n:]

	return n, nil
}

type decodeOutcome struct {
	entry   string
	m       *stun.Message
	err     error
	copying bool   // entry point must copy (views must not alias the caller's data)
	data    []byte // the caller's data (arena view)
	full    []byte // arena backing array
	alloc   uint64
	measure bool
}

// runEntry performs one decoding entry point on the case.
func runEntry(c decodeCase, entry string, in []byte, measure bool) (o decodeOutcome, perr error) {
	o.entry, o.measure = entry, measure
	m := new(stun.Message)
	if c.Prior != "" {
		if err := stun.Decode(unHex(c.Prior), m); err != nil {
			return o, fmt.Errorf("harness: prior message does not decode: %w", err)
		}
	}
	o.m = m
	data, full := gen.ArenaFull(in, c.ExtraCap, c.Poison)
	o.data, o.full = data, full
	var call func()
	switch entry {
	case "Decode":
		o.copying = true
		call = func() { o.err = stun.Decode(data, m) }
	case "Message.Decode":
		m.Raw = data
		call = func() { o.err = m.Decode() }
	case "Write":
		o.copying = true
		call = func() {
			n, err := m.Write(data)
			o.err = err
			if n != len(data) {
				panic(fmt.Sprintf("Write returned n=%d for %d bytes", n, len(data)))
			}
		}
	case "UnmarshalBinary":
		o.copying = true
		call = func() { o.err = m.UnmarshalBinary(data) }
	case "GobDecode":
		o.copying = true
		call = func() { o.err = m.GobDecode(data) }
	case "ReadFrom":
		// the reader fills m.Raw[:cap]; capacity ends exactly extraCap bytes
		// after the message.
		buf, bfull := gen.ArenaFull(make([]byte, len(in)), c.ExtraCap, c.Poison)
		o.data, o.full = nil, bfull
		m.Raw = buf[:0]
		rd := &sliceReader{b: in}
		call = func() {
			n, err := m.ReadFrom(rd)
			o.err = err
			if err == nil && int(n) != len(in) {
				panic(fmt.Sprintf("ReadFrom returned n=%d for %d bytes", n, len(in)))
			}
		}
	case "CloneTo":
		o.copying = true
		src := &stun.Message{Raw: data}
		call = func() { o.err = src.CloneTo(m) }
	default:
		return o, fmt.Errorf("harness: unknown entry %q", entry)
	}
	var ms1, ms2 runtime.MemStats
	guarded("C01", "decode", c, func() {
		if measure {
			runtime.ReadMemStats(&ms1)
		}
		perr = pbt.Safely(call)
		if measure {
			runtime.ReadMemStats(&ms2)
			o.alloc = ms2.TotalAlloc - ms1.TotalAlloc
		}
	})

	return o, perr
}

// geometry checks C01(d): every exposed value is a view of exactly the
// declared bytes inside the message's own declared body, in wire order and
// non-overlapping. Independent of the reference parser.
func geometry(o decodeOutcome, in []byte) error {
	m := o.m
	if len(m.Raw) < 20 {
		return fmt.Errorf("success with %d raw bytes", len(m.Raw))
	}
	// the message's own bytes are the input (an implementation may drop bytes after the declared
	// length; the statement only requires the views to lie inside the message's own body)
	if !bytes.HasPrefix(in, m.Raw) {
		return fmt.Errorf("m.Raw (%d bytes) is not (a prefix of) the input (%d bytes)", len(m.Raw), len(in))
	}
	declared := int(m.Raw[2])<<8 | int(m.Raw[3])
	if int(m.Length) != declared || len(m.Raw) < 20+declared {
		return fmt.Errorf("Length=%d, header says %d, len(Raw)=%d", m.Length, declared, len(m.Raw))
	}
	if o.copying && inside(m.Raw, o.full) {
		return fmt.Errorf("%s retained the caller's buffer (Raw aliases data)", o.entry)
	}
	pos := 20
	for i, a := range m.Attributes {
		if pos+4 > 20+declared {
			return fmt.Errorf("attribute %d starts at %d, outside the declared body (ends %d)", i, pos, 20+declared)
		}
		l := int(a.Length)
		if len(a.Value) != l {
			return fmt.Errorf("attribute %d: len(Value)=%d but Length=%d", i, len(a.Value), l)
		}
		wl := int(m.Raw[pos+2])<<8 | int(m.Raw[pos+3])
		if wl != l {
			return fmt.Errorf("attribute %d: Length=%d but wire says %d at offset %d", i, l, wl, pos)
		}
		if pos+4+ref.Pad(l) > 20+declared {
			return fmt.Errorf("attribute %d (len %d at %d) extends beyond the declared body end %d", i, l, pos, 20+declared)
		}
		if l > 0 {
			want := unsafe.Pointer(&m.Raw[pos+4])
			if unsafe.Pointer(unsafe.SliceData(a.Value)) != want {
				return fmt.Errorf("attribute %d: Value does not start at Raw[%d] (not a view of its own bytes, or out of wire order)", i, pos+4)
			}
		}
		pos += 4 + ref.Pad(l)
	}
	if pos != 20+declared {
		return fmt.Errorf("attributes cover %d body bytes, declared %d", pos-20, declared)
	}
	if !stun.IsMessage(in) {
		return fmt.Errorf("decoded successfully but IsMessage is false")
	}

	return nil
}

const allocSlack, allocFactor = 4096, 96

// runC01 runs every entry point on the case and applies oracles (a)-(e).
func runC01(c decodeCase, measure bool) (decodeCase, error) {
	in := unHex(c.Input)
	// IsMessage is the multiplexing pre-check applied to arbitrary datagrams: it must be total too
	arena := gen.Arena(in, 0, c.Poison)
	if perr := pbt.Safely(func() { _ = stun.IsMessage(arena) }); perr != nil {
		c.Entry = "IsMessage"

		return c, fmt.Errorf("IsMessage on a %d-byte input: %w", len(in), perr)
	}
	var first *decodeOutcome
	for _, e := range entryPoints {
		o, perr := runEntry(c, e, in, measure)
		c.Entry = e
		if perr != nil {
			return c, fmt.Errorf("%s: %w", e, perr)
		}
		if measure && o.alloc > uint64(allocSlack+allocFactor*len(in)) {
			// TotalAlloc is process-wide: a background allocation of the runtime (GC workers, timers)
			// can fall into the window. A decoder that really over-allocates does so on every call,
			// so the verdict is the minimum over repeated measurements.
			least := o.alloc
			for rep := 0; rep < 5 && least > uint64(allocSlack+allocFactor*len(in)); rep++ {
				o2, perr2 := runEntry(c, e, in, true)
				if perr2 != nil {
					return c, fmt.Errorf("%s: %w", e, perr2)
				}
				if o2.alloc < least {
					least = o2.alloc
				}
			}
			if least > uint64(allocSlack+allocFactor*len(in)) {
				return c, fmt.Errorf("%s allocated at least %d bytes in each of 6 measurements for a %d-byte input (bound %d)", e, least, len(in), allocSlack+allocFactor*len(in))
			}
		}
		if o.err == nil {
			if err := geometry(o, in); err != nil {
				return c, fmt.Errorf("%s: %w", e, err)
			}
		}
		if first == nil {
			oc := o
			first = &oc

			continue
		}
		if (first.err == nil) != (o.err == nil) {
			return c, fmt.Errorf("entry points disagree: %s -> %v, %s -> %v", first.entry, first.err, e, o.err)
		}
		if o.err == nil {
			if first.m.Type != o.m.Type || first.m.Length != o.m.Length || first.m.TransactionID != o.m.TransactionID ||
				len(first.m.Attributes) != len(o.m.Attributes) {
				return c, fmt.Errorf("entry points %s and %s decode different headers/attribute counts", first.entry, e)
			}
			for i := range o.m.Attributes {
				x, y := first.m.Attributes[i], o.m.Attributes[i]
				if x.Type != y.Type || x.Length != y.Length || !bytes.Equal(x.Value, y.Value) {
					return c, fmt.Errorf("entry points %s and %s disagree on attribute %d", first.entry, e, i)
				}
			}
		}
	}
	c.Entry = ""

	return c, nil
}

// decodeSig classifies an input: non-trivial when at least one attribute
// header lies inside the buffer of a cookie-bearing >= 20-byte input.
func decodeSig(in []byte, extraCap int, prior bool) (sig uint64, nontrivial bool) {
	h := evid.NewH().I(len(in))
	capClass := 0
	switch {
	case extraCap == 0:
	case extraCap <= 3:
		capClass = 1
	case extraCap <= 64:
		capClass = 2
	default:
		capClass = 3
	}
	h.I(capClass)
	if prior {
		h.I(1)
	}
	if len(in) < 20 || !stun.IsMessage(in) {
		return h.Sum(), false
	}
	h.I(int(in[2])<<8 | int(in[3]))
	pos := 20
	n := 0
	for pos+4 <= len(in) && n < 64 {
		l := int(in[pos+2])<<8 | int(in[pos+3])
		h.I(l)
		pos += 4 + ref.Pad(l)
		n++
	}

	return h.Sum(), n > 0
}

// genDecodeCase draws an input from the four sources of the design.
func genDecodeCase(rt *rapid.T) decodeCase {
	var in []byte
	src := rapid.SampledFrom([]string{"random", "wire", "wire", "mutated", "mutated", "mutated", "bigwire"}).Draw(rt, "source")
	switch src {
	case "random":
		n := rapid.IntRange(0, 80).Draw(rt, "n")
		in = rapid.SliceOfN(rapid.Byte(), n, n).Draw(rt, "bytes")
		if len(in) >= 8 && rapid.Bool().Draw(rt, "forceCookie") {
			copy(in[4:8], []byte{0x21, 0x12, 0xA4, 0x42})
		}
	case "wire":
		in = gen.WireMsg(rt, 8, 600, false).Bytes()
	case "bigwire":
		in = gen.WireMsg(rt, 40, 65535, false).Bytes()
	default:
		in = gen.Mutate(rt, gen.WireMsg(rt, 6, 300, false).Bytes())
	}
	c := decodeCase{Input: toHex(in), Source: src}
	c.ExtraCap = rapid.SampledFrom([]int{0, 0, 0, 1, 2, 3, 4, 7, 8, 20, 64, 4096}).Draw(rt, "extraCap")
	c.Poison = rapid.SampledFrom([]byte{0x00, 0xFF, 0xA5, 0x21}).Draw(rt, "poison")
	if rapid.IntRange(0, 2).Draw(rt, "used") == 0 {
		c.Prior = toHex(gen.WireMsg(rt, 10, 400, true).Bytes())
	}

	return c
}

func c01Notes(rec *evid.Rec) {
	rec.Note("rule", "inputs: random bytes (cookie forced half of the time), RFC-framed messages with non-canonical freedoms, structure-aware mutations "+
		"(bit/byte flips, truncation, extension, header/attribute length-field edits, splices) and the exhaustive length-shape space "+
		"(buffer length x declared length x attribute length-field sequence up to a body bound); each placed in a poisoned arena with spare capacity "+
		"0/1..3/4..64/4096 and decoded through all 7 entry points into a fresh or previously used Message. Oracles: no panic, 30 s watchdog, "+
		"TotalAlloc delta <= 4096+96*len, view geometry (pointer/len of every Value inside the declared body, wire order, no overlap, no aliasing of caller data for copying entry points), "+
		"IsMessage, and agreement between entry points. Non-trivial = input >= 24 bytes with the magic cookie so at least one attribute header is examined; "+
		"distinct by (input length, declared length, attribute length-field sequence, capacity class, fresh/used target).")
	rec.Note("assumptions", []string{
		"inputs longer than 65555 bytes are not generated (16-bit length field: equivalent to a shorter prefix plus ignored tail)",
		"allocation bound 4096+96*len(input) taken as 'a small multiple' (worst legitimate case measured: 39x for all zero-length attributes)",
		"the -tags debug build is checked by a second phase of the same tests",
	})
}

func TestC01_Rapid(t *testing.T) {
	rec := evid.For("C01")
	c01Notes(rec)
	n := evid.Pick(25000, 150000)
	i := 0
	pbt.Check(t, rec, "decode", n, func(rt *rapid.T) (any, error) {
		c := genDecodeCase(rt)
		in := unHex(c.Input)
		i++
		measure := i%4 == 0
		if len(in) >= 4 && int(in[2])<<8|int(in[3]) > len(in) {
			measure = true // declared length exceeds the input: the pre-allocation risk
		}
		sig, nt := decodeSig(in, c.ExtraCap, c.Prior != "")
		rec.Case(c.Source, sig, nt, func() any { return c })
		fc, err := runC01(c, measure)

		return fc, err
	})
}

func TestC01_Shapes(t *testing.T) {
	rec := evid.For("C01")
	c01Notes(rec)
	bound := evid.Pick(16, 24)
	shard, nshards := evid.Shard()
	pool := poolBytes(4096)
	loc := evid.NewLocal()
	caps := []int{0, 1, 5}
	var k int
	failed := false
	total := gen.Shapes(bound, shard, nshards, func(s gen.Shape) bool {
		in := s.Render(pool)
		k++
		c := decodeCase{Input: toHex(in), ExtraCap: caps[k%3], Poison: pool[k%len(pool)], Source: "shape"}
		sig, nt := decodeSig(in, c.ExtraCap, false)
		loc.Case("shape", sig, nt)
		fc, err := runC01(c, k%16 == 0 || s.Declared > s.BufLen)
		if err != nil {
			pbt.Fail(t, rec, "decode", fc, "%v", err)
			failed = true

			return false
		}

		return true
	})
	rec.Merge(loc)
	rec.Count("shapes", total)
	rec.Note("shape_body_bound", bound)
	rec.Sample("shape", gen.Shape{BufLen: 32, Declared: 12, Lens: []int{1, 5}})
	rec.Exhaustive(fmt.Sprintf("length shapes up to body bound %d", bound), !failed)
}

func TestC01_Replay(t *testing.T) { replayAll(t, "C01") }

func init() {
	replayers["C01/decode"] = func(raw json.RawMessage) error {
		var c decodeCase
		if err := json.Unmarshal(raw, &c); err != nil {
			return err
		}
		_, err := runC01(c, true)

		return err
	}
}
