package codec

import (
	"bytes"
	"encoding/json"
	"fmt"
	"testing"

	"github.com/pion/stun/v3"
	"github.com/pion/stun/v3/verifharness/evid"
	"github.com/pion/stun/v3/verifharness/gen"
	"github.com/pion/stun/v3/verifharness/pbt"
	"github.com/pion/stun/v3/verifharness/ref"
	"pgregory.net/rapid"
)

// use is one use of the shared Message.
type use struct {
	Kind string `json:"k"` // decode write unmarshal gobdecode readfrom cloneto build manual
	Wire hx     `json:"wire,omitempty"`
	Sub  []bop  `json:"sub,omitempty"`
}

type c08Case struct {
	Uses   []use `json:"uses"`
	Poison byte  `json:"poison"`
}

// applyUse performs u on m; mutate=true overwrites every caller-side input
// afterwards. It returns whether the operation succeeded.
func applyUse(u use, m *stun.Message, mutate bool) (ok bool, err error) {
	scribble := func(b []byte) {
		for i := range b {
			b[i] = 0xEE
		}
	}
	switch u.Kind {
	case "decode", "write", "unmarshal", "gobdecode", "readfrom", "cloneto":
		data := unHex(u.Wire)
		var derr error
		switch u.Kind {
		case "decode":
			derr = stun.Decode(data, m)
		case "write":
			_, derr = m.Write(data)
		case "unmarshal":
			derr = m.UnmarshalBinary(data)
		case "gobdecode":
			derr = m.GobDecode(data)
		case "readfrom":
			// ReadFrom reads into the capacity the caller provides: runC08 provides it ONCE, before the
			// first use (like the client's reader does), so every later use must have kept it
			_, derr = m.ReadFrom(&sliceReader{b: data})
		case "cloneto":
			src := &stun.Message{Raw: data}
			derr = src.CloneTo(m)
		}
		if mutate {
			scribble(data)
		}

		return derr == nil, nil
	case "encode":
		// Encode rebuilds the bytes from the fields the Message holds now (whatever the previous use -
		// also a failed one - left in them); the twin has been given the same fields by runC08
		m.Encode()

		return true, nil
	case "build", "manual":
		setterBufs, trackSetterBufs = nil, mutate
		defer func() { trackSetterBufs, setterBufs = false, nil }()
		var setters []stun.Setter
		size := 0
		for _, so := range u.Sub {
			if size+so.maxAdded() > 65535 {
				continue
			}
			size += so.maxAdded()
			s, _, _, _ := so.setter()
			if s == nil {
				return false, fmt.Errorf("harness: %q is not a setter", so.Kind)
			}
			setters = append(setters, s)
		}
		var berr error
		if u.Kind == "build" {
			berr = m.Build(setters...)
		} else {
			m.Reset()
			m.WriteHeader()
			for _, s := range setters {
				if ra, isRaw := s.(stun.RawAttribute); isRaw {
					m.Add(ra.Type, ra.Value)

					continue
				}
				if berr = s.AddTo(m); berr != nil {
					break
				}
			}
		}
		for _, b := range setterBufs {
			scribble(b)
		}
		// integrity after fingerprint legitimately stops a build: that is a failed use
		return berr == nil, nil
	}

	return false, fmt.Errorf("harness: unknown use %q", u.Kind)
}

func poisonSpare(m *stun.Message, p byte) {
	spare := m.Raw[len(m.Raw):cap(m.Raw)]
	for i := range spare {
		spare[i] = p
	}
	junk := []byte{p, p, p, p, p, p, p, p}
	sa := m.Attributes[len(m.Attributes):cap(m.Attributes)]
	for i := range sa {
		sa[i] = stun.RawAttribute{Type: 0xDEAD, Length: 0xBEEF, Value: junk}
	}
}

func sameContent(a, b *stun.Message) error {
	if !bytes.Equal(a.Raw, b.Raw) {
		i := 0
		for i < len(a.Raw) && i < len(b.Raw) && a.Raw[i] == b.Raw[i] {
			i++
		}

		return fmt.Errorf("raw bytes differ (len %d vs %d, first difference at offset %d)", len(a.Raw), len(b.Raw), i)
	}
	if a.Length != b.Length || a.Type != b.Type || a.TransactionID != b.TransactionID {
		return fmt.Errorf("header fields differ: Length %d/%d Type %v/%v", a.Length, b.Length, a.Type, b.Type)
	}
	if len(a.Attributes) != len(b.Attributes) {
		return fmt.Errorf("attribute count %d vs %d", len(a.Attributes), len(b.Attributes))
	}
	for i := range a.Attributes {
		x, y := a.Attributes[i], b.Attributes[i]
		if x.Type != y.Type || x.Length != y.Length || !bytes.Equal(x.Value, y.Value) {
			return fmt.Errorf("attribute %d differs: (%v len %d %x) vs (%v len %d %x)", i, x.Type, x.Length, x.Value, y.Type, y.Length, y.Value)
		}
	}

	return nil
}

type useShape struct {
	size, attrs int
	odd, build  bool
}

func runC08(c c08Case) (nontrivial bool, err error) {
	m := new(stun.Message)
	readCap := 0
	for _, u := range c.Uses {
		if u.Kind == "readfrom" && len(u.Wire)/2 > readCap {
			readCap = len(u.Wire) / 2
		}
	}
	if readCap > 0 {
		m.Raw = make([]byte, 0, readCap) // the caller's read buffer, provided once
	}
	var prev *useShape
	var marshaled, marshaledWant []byte
	for i, u := range c.Uses {
		twin := &stun.Message{Type: m.Type, TransactionID: m.TransactionID}
		if readCap > 0 {
			twin.Raw = make([]byte, 0, readCap)
		}
		if u.Kind == "encode" {
			for _, a := range m.Attributes {
				twin.Attributes = append(twin.Attributes, stun.RawAttribute{Type: a.Type, Length: a.Length, Value: append([]byte(nil), a.Value...)})
			}
		}
		var ok, tok bool
		var aerr error
		perr := pbt.Safely(func() {
			ok, aerr = applyUse(u, m, true)
			if aerr == nil {
				tok, aerr = applyUse(u, twin, false)
			}
		})
		if perr != nil {
			return nontrivial, fmt.Errorf("use %d (%s): %w", i, u.Kind, perr)
		}
		if aerr != nil {
			return nontrivial, aerr
		}
		if ok != tok {
			return nontrivial, fmt.Errorf("use %d (%s): reused message success=%v, fresh twin success=%v", i, u.Kind, ok, tok)
		}
		if marshaled != nil && !bytes.Equal(marshaled, marshaledWant) {
			return nontrivial, fmt.Errorf("use %d (%s) changed the result of an earlier MarshalBinary", i, u.Kind)
		}
		if ok {
			if derr := sameContent(m, twin); derr != nil {
				return nontrivial, fmt.Errorf("use %d (%s) on a reused Message differs from the same use on a fresh Message: %w", i, u.Kind, derr)
			}
			r, rok := ref.Parse(m.Raw)
			if !rok {
				return nontrivial, fmt.Errorf("use %d (%s): result is not a well-formed message", i, u.Kind)
			}
			sh := &useShape{size: len(m.Raw), attrs: len(r.Attrs), build: u.Kind == "build" || u.Kind == "manual"}
			for _, a := range r.Attrs {
				if a.Len%4 != 0 {
					sh.odd = true
				}
			}
			if prev != nil && ((sh.size < prev.size && sh.odd) || sh.attrs < prev.attrs || sh.build != prev.build) {
				nontrivial = true
			}
			prev = sh
			// results of MarshalBinary / CloneTo must survive later changes to m
			mb, merr := m.MarshalBinary()
			if merr != nil || !bytes.Equal(mb, m.Raw) || (len(mb) > 0 && len(m.Raw) > 0 && &mb[0] == &m.Raw[0]) {
				return nontrivial, fmt.Errorf("use %d: MarshalBinary returned (%d bytes, %v), want a copy of the %d raw bytes", i, len(mb), merr, len(m.Raw))
			}
			if gb, gerr := m.GobEncode(); gerr != nil || !bytes.Equal(gb, m.Raw) {
				return nontrivial, fmt.Errorf("use %d: GobEncode does not return the raw bytes", i)
			}
			var sink bytes.Buffer
			if n, werr := m.WriteTo(&sink); werr != nil || int(n) != len(m.Raw) || !bytes.Equal(sink.Bytes(), m.Raw) {
				return nontrivial, fmt.Errorf("use %d: WriteTo wrote %d bytes (%v), want the %d raw bytes", i, n, werr, len(m.Raw))
			}
			marshaled, marshaledWant = mb, append([]byte(nil), mb...)
			clone := new(stun.Message)
			if cerr := m.CloneTo(clone); cerr != nil {
				return nontrivial, fmt.Errorf("use %d: CloneTo of a valid message failed: %v", i, cerr)
			}
			want := append([]byte(nil), m.Raw...)
			for j := range m.Raw {
				m.Raw[j] ^= 0xFF
			}
			if !bytes.Equal(clone.Raw, want) || len(clone.Attributes) != len(r.Attrs) {
				return nontrivial, fmt.Errorf("use %d: CloneTo result changed when the source was modified", i)
			}
			for j, a := range clone.Attributes {
				if !bytes.Equal(a.Value, r.Attrs[j].Value) && !bytes.Equal(a.Value, want[20+r.Attrs[j].Off:20+r.Attrs[j].Off+r.Attrs[j].Len]) {
					return nontrivial, fmt.Errorf("use %d: CloneTo attribute %d aliases the source", i, j)
				}
			}
			for j := range m.Raw {
				m.Raw[j] ^= 0xFF
			}
		}
		poisonSpare(m, c.Poison)
	}

	return nontrivial, nil
}

func genUse(rt *rapid.T) use {
	switch rapid.IntRange(0, 9).Draw(rt, "useClass") {
	case 0, 1, 2, 3:
		u := use{Kind: rapid.SampledFrom([]string{"decode", "write", "unmarshal", "gobdecode", "readfrom", "cloneto"}).Draw(rt, "dk")}
		w := gen.WireMsg(rt, 8, rapid.SampledFrom([]int{40, 200, 800, 4000}).Draw(rt, "budget"), rapid.Bool().Draw(rt, "canon")).Bytes()
		if rapid.IntRange(0, 5).Draw(rt, "invalid") == 0 {
			w = gen.Mutate(rt, w)
		}
		u.Wire = toHex(w)

		return u
	case 4:
		if rapid.Bool().Draw(rt, "encodeUse") {
			return use{Kind: "encode"}
		}

		return use{Kind: "build"} // empty build
	default:
		u := use{Kind: rapid.SampledFrom([]string{"build", "build", "manual"}).Draw(rt, "bk")}
		n := rapid.IntRange(0, 8).Draw(rt, "nSetters")
		for i := 0; i < n; i++ {
			if rapid.IntRange(0, 5).Draw(rt, "hdr") == 0 {
				h := genHeaderOp(rt)
				if h.Kind == "tidrandom" { // crypto/rand ids would differ between the message and its twin
					h = bop{Kind: "tidset", TID: genTIDHex(rt)}
				}
				u.Sub = append(u.Sub, h)
			} else {
				u.Sub = append(u.Sub, genAttrOp(rt, true, rapid.SampledFrom([]int{12, 60, 800}).Draw(rt, "maxVal")))
			}
		}

		return u
	}
}

func TestC08_Rapid(t *testing.T) {
	rec := evid.For("C08")
	rec.Note("rule", "rapid-generated histories of 2..8 uses of one Message: Decode / Write / UnmarshalBinary / GobDecode / ReadFrom / CloneTo(into it) / Encode() from the current fields of random valid (canonical and non-canonical) or mutated messages of "+
		"40..4000 bytes, and Build(setters) / Reset+WriteHeader+AddTo of random typed, raw, integrity and fingerprint setters; between uses the spare capacity of Raw and of Attributes is filled with poison; "+
		"after every call all caller-side inputs (data, setter values, CloneTo source) are overwritten. Oracle: after every successful use the message equals (Raw, Length, Type, TransactionID, attributes) a fresh Message "+
		"with the same Type/TransactionID fields given the same use; success/failure agrees with the twin; earlier MarshalBinary and CloneTo results are unaffected by later changes. "+
		"Non-trivial = a use that is smaller than the previous one and holds a value with len%4 != 0, or has fewer attributes, or switches between decoding and building; distinct by (use kinds, sizes).")
	rec.Note("assumptions", []string{"Message.Decode() in place (no copy by design) is not a 'copying' entry point and is excluded"})
	pbt.Check(t, rec, "history", evid.Pick(20000, 200000), func(rt *rapid.T) (any, error) {
		c := c08Case{Poison: rapid.SampledFrom([]byte{0xA5, 0xFF, 0x01, 0x80}).Draw(rt, "poison")}
		c.Uses = rapid.SliceOfN(rapid.Custom(genUse), 2, 8).Draw(rt, "uses")
		nt, err := runC08(c)
		h := evid.NewH()
		for _, u := range c.Uses {
			h.Str(u.Kind).I(len(u.Wire)).I(len(u.Sub))
		}
		rec.Case("history", h.Sum(), nt, func() any { return c })

		return c, err
	})
}

func TestC08_Replay(t *testing.T) { replayAll(t, "C08") }

func init() {
	replayers["C08/history"] = func(raw json.RawMessage) error {
		var c c08Case
		if err := json.Unmarshal(raw, &c); err != nil {
			return err
		}
		_, err := runC08(c)

		return err
	}
}
