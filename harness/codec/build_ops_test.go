package codec

import (
	"fmt"
	"net"

	"github.com/pion/stun/v3"
	"github.com/pion/stun/v3/verifharness/gen"
	"github.com/pion/stun/v3/verifharness/ref"
	"pgregory.net/rapid"
)

// bop is one message-building operation with its arguments; a trace of bops
// is the replayable case of C03 (and is reused by C04, C05, C08, C09, C20).
type bop struct {
	Kind   string   `json:"k"`
	Type   uint16   `json:"t,omitempty"`
	Val    hx       `json:"v,omitempty"`
	IP     hx       `json:"ip,omitempty"`
	Port   int      `json:"port,omitempty"`
	Key    hx       `json:"key,omitempty"`
	Method uint16   `json:"method,omitempty"`
	Class  uint8    `json:"class,omitempty"`
	TID    hx       `json:"tid,omitempty"`
	Code   int      `json:"code,omitempty"`
	Types  []uint16 `json:"types,omitempty"`
	User   string   `json:"user,omitempty"`
	Realm  string   `json:"realm,omitempty"`
	Pass   string   `json:"pass,omitempty"`
	Sub    []bop    `json:"sub,omitempty"`
}

// codes with a default reason on the pinned tree (RFC 5389, 5766, 6062, 6156).
var defaultReasonCodes = []int{300, 400, 401, 420, 438, 487, 500, 403, 437, 441, 442, 486, 508, 446, 447, 440, 443}

// mAttr is the model's view of one attribute.
type mAttr struct {
	Type  uint16
	Value []byte
}

// bmodel is the abstract content of the message under construction.
type bmodel struct {
	Method uint16
	Class  uint8
	TID    [12]byte
	Attrs  []mAttr
}

func (b *bmodel) size() int {
	n := 0
	for _, a := range b.Attrs {
		n += 4 + ref.Pad(len(a.Value))
	}

	return n
}

func (b *bmodel) has(t uint16) bool {
	for _, a := range b.Attrs {
		if a.Type == t {
			return true
		}
	}

	return false
}

func (b *bmodel) eattrs() []ref.EAttr {
	out := make([]ref.EAttr, len(b.Attrs))
	for i, a := range b.Attrs {
		out[i] = ref.EAttr{Type: a.Type, Value: a.Value}
	}

	return out
}

// maxAdded is an upper bound of the encoded bytes an attribute op appends.
func (o bop) maxAdded() int {
	switch o.Kind {
	case "add", "raw", "username", "realm", "nonce", "software", "textas":
		return 4 + ref.Pad(len(o.Val)/2)
	case "xor", "xoras", "mapped", "mappedas", "alt", "origin", "other":
		return 24
	case "errattr":
		return 4 + ref.Pad(4+len(o.Val)/2)
	case "errcode":
		return 4 + 36
	case "unknown":
		return 4 + 4*len(o.Types)
	case "mi", "mishort", "milong":
		return 24
	case "fp":
		return 8
	}

	return 0
}

// setter turns an attribute/type/id op into a stun.Setter, plus what the model
// expects it to append: (type, exact length or -1, ok) - ok=false means the op
// appends nothing.
func (o bop) setter() (s stun.Setter, addType uint16, addLen int, adds bool) {
	ip := net.IP(unHex(o.IP))
	ipLen := 8
	if len(ip) == 16 && ip.To4() == nil {
		ipLen = 20
	}
	val := unHex(o.Val)
	if trackSetterBufs {
		setterBufs = append(setterBufs, ip, val)
	}
	switch o.Kind {
	case "raw":
		return stun.RawAttribute{Type: stun.AttrType(o.Type), Length: uint16(o.Port), Value: val}, o.Type, len(val), true
	case "xor":
		return &stun.XORMappedAddress{IP: ip, Port: o.Port}, 0x0020, ipLen, true
	case "xoras":
		return xorAs{stun.XORMappedAddress{IP: ip, Port: o.Port}, stun.AttrType(o.Type)}, o.Type, ipLen, true
	case "mapped":
		return &stun.MappedAddress{IP: ip, Port: o.Port}, 0x0001, ipLen, true
	case "mappedas":
		return mappedAs{stun.MappedAddress{IP: ip, Port: o.Port}, stun.AttrType(o.Type)}, o.Type, ipLen, true
	case "alt":
		return &stun.AlternateServer{IP: ip, Port: o.Port}, 0x8023, ipLen, true
	case "origin":
		return &stun.ResponseOrigin{IP: ip, Port: o.Port}, 0x802b, ipLen, true
	case "other":
		return &stun.OtherAddress{IP: ip, Port: o.Port}, 0x802c, ipLen, true
	case "username":
		return stun.Username(val), 0x0006, len(val), true
	case "realm":
		return stun.Realm(val), 0x0014, len(val), true
	case "nonce":
		return stun.Nonce(val), 0x0015, len(val), true
	case "software":
		return stun.Software(val), 0x8022, len(val), true
	case "textas":
		return textAs{stun.TextAttribute(val), stun.AttrType(o.Type), o.Port}, o.Type, len(val), true
	case "errattr":
		return stun.ErrorCodeAttribute{Code: stun.ErrorCode(o.Code), Reason: val}, 0x0009, 4 + len(val), true
	case "errcode":
		return stun.ErrorCode(o.Code), 0x0009, -1, true
	case "unknown":
		ua := make(stun.UnknownAttributes, len(o.Types))
		for i, t := range o.Types {
			ua[i] = stun.AttrType(t)
		}

		return ua, 0x000A, -1, true
	case "mi":
		return stun.MessageIntegrity(unHex(o.Key)), 0x0008, 20, true
	case "mishort":
		return stun.NewShortTermIntegrity(o.Pass), 0x0008, 20, true
	case "milong":
		return stun.NewLongTermIntegrity(o.User, o.Realm, o.Pass), 0x0008, 20, true
	case "fp":
		return stun.Fingerprint, 0x8028, 4, true
	case "typeaddto":
		return stun.NewType(stun.Method(o.Method), stun.MessageClass(o.Class)), 0, 0, false
	case "tidset":
		var id [12]byte
		copy(id[:], unHex(o.TID))

		return stun.NewTransactionIDSetter(id), 0, 0, false
	case "tidrandom":
		return stun.TransactionID, 0, 0, false
	case "msgaddto":
		other := new(stun.Message)
		copy(other.TransactionID[:], unHex(o.TID))

		return other, 0, 0, false
	}

	return nil, 0, 0, false
}

// setterBufs collects the caller-side byte slices handed to setters so that
// C08 can overwrite them after the call (copy semantics).
var (
	trackSetterBufs bool
	setterBufs      [][]byte
)

type xorAs struct {
	a stun.XORMappedAddress
	t stun.AttrType
}

func (x xorAs) AddTo(m *stun.Message) error { return x.a.AddToAs(m, x.t) }

type mappedAs struct {
	a stun.MappedAddress
	t stun.AttrType
}

func (x mappedAs) AddTo(m *stun.Message) error { return x.a.AddToAs(m, x.t) }

type textAs struct {
	v   stun.TextAttribute
	t   stun.AttrType
	max int
}

func (x textAs) AddTo(m *stun.Message) error { return x.v.AddToAs(m, x.t, x.max) }

// key returns the HMAC key an integrity op signs with.
func (o bop) key() []byte {
	switch o.Kind {
	case "mi":
		return unHex(o.Key)
	case "mishort":
		return []byte(o.Pass)
	case "milong":
		return ref.LongTermKey(o.User, o.Realm, o.Pass)
	}

	return nil
}

// builder couples the library message with the model.
type builder struct {
	m       *stun.Message
	mod     bmodel
	skipped int
	lenOps  int  // length-changing operations applied
	oddLen  bool // some added value had len%4 != 0
	sealed  int  // ops applied after an integrity/fingerprint setter
	hasSeal bool
	// trailing: the message was decoded from a datagram with bytes after the declared length and no
	// attribute has been appended since. Those bytes are tolerated by the decoder and stay in Raw
	// until the next operation that appends an attribute or re-encodes, which cuts Raw at the new end.
	trailing bool
}

// applyModel updates the model for a setter-type op that returned nil.
func (b *builder) noteAdded(o bop, addType uint16, addLen int) error {
	r, ok := ref.Parse(b.m.Raw)
	if !ok {
		return fmt.Errorf("after %s: raw bytes are not a well-formed message", o.Kind)
	}
	want := len(b.mod.Attrs) + 1
	if len(r.Attrs) != want {
		return fmt.Errorf("after %s: wire has %d attributes, model expects %d", o.Kind, len(r.Attrs), want)
	}
	last := r.Attrs[want-1]
	if last.WireType != addType {
		return fmt.Errorf("after %s: appended attribute has type %#04x, want %#04x", o.Kind, last.WireType, addType)
	}
	if addLen >= 0 && last.Len != addLen {
		return fmt.Errorf("after %s: appended attribute has length %d, want %d", o.Kind, last.Len, addLen)
	}
	b.mod.Attrs = append(b.mod.Attrs, mAttr{Type: addType, Value: append([]byte(nil), last.Value...)})
	b.trailing = false
	b.lenOps++
	if last.Len%4 != 0 {
		b.oddLen = true
	}

	return nil
}

// apply executes one op on the library message and on the model.
func (b *builder) apply(o bop) error {
	if b.mod.size()+o.maxAdded() > 65535 {
		b.skipped++

		return nil
	}
	if b.hasSeal {
		b.sealed++
	}
	m := b.m
	switch o.Kind {
	case "add":
		v := unHex(o.Val)
		m.Add(stun.AttrType(o.Type), v)
		b.mod.Attrs = append(b.mod.Attrs, mAttr{Type: o.Type, Value: v})
		b.trailing = false
		b.lenOps++
		if len(v)%4 != 0 {
			b.oddLen = true
		}
	case "settype":
		m.SetType(stun.NewType(stun.Method(o.Method), stun.MessageClass(o.Class)))
		b.mod.Method, b.mod.Class = o.Method, o.Class
	case "newtid":
		if err := m.NewTransactionID(); err != nil {
			return fmt.Errorf("NewTransactionID: %w", err)
		}
		b.mod.TID = m.TransactionID
	case "writeheader":
		m.WriteHeader()
	case "encode":
		m.Encode()
		b.trailing = false
	case "encode-fields":
		// Encode is the way to produce the bytes from the struct's fields: the caller edits Type,
		// TransactionID and the attribute list and calls Encode. Here the list is cut to its first
		// o.Port entries (possibly none) first.
		keep := o.Port
		if keep > len(m.Attributes) {
			keep = len(m.Attributes)
		}
		m.Attributes = m.Attributes[:keep]
		m.Encode()
		b.mod.Attrs = b.mod.Attrs[:keep]
		b.trailing = false
		b.hasSeal = false
		for _, a := range b.mod.Attrs {
			if a.Type == 0x0008 || a.Type == 0x8028 {
				b.hasSeal = true
			}
		}
	case "writelength":
		m.WriteLength()
	case "writetype":
		m.WriteType()
	case "writetid":
		m.WriteTransactionID()
	case "build":
		setters := make([]stun.Setter, 0, len(o.Sub))
		var subs []bop
		size := 0
		for _, so := range o.Sub {
			if size+so.maxAdded() > 65535 {
				b.skipped++

				continue
			}
			s, _, _, _ := so.setter()
			if s == nil {
				return fmt.Errorf("harness: op %q is not a setter", so.Kind)
			}
			size += so.maxAdded()
			setters = append(setters, &spy{inner: s})
			subs = append(subs, so)
		}
		// model: Build resets the attributes, keeps type and id, then applies
		// the setters in order; integrity after fingerprint stops it.
		b.mod.Attrs = nil
		b.trailing = false
		stopAt := -1
		for i, so := range subs {
			if (so.Kind == "mi" || so.Kind == "mishort" || so.Kind == "milong") && fpBefore(subs[:i]) {
				stopAt = i

				break
			}
		}
		err := m.Build(setters...)
		if stopAt >= 0 {
			if err != stun.ErrFingerprintBeforeIntegrity { //nolint:errorlint
				return fmt.Errorf("Build with integrity after FINGERPRINT returned %v", err)
			}
			subs = subs[:stopAt]
		} else if err != nil {
			return fmt.Errorf("Build returned %v for in-limit setters", err)
		}
		r, ok := ref.Parse(m.Raw)
		if !ok {
			return fmt.Errorf("after Build: raw bytes are not a well-formed message")
		}
		ai := 0
		for _, so := range subs {
			_, at, al, adds := so.setter()
			switch so.Kind {
			case "typeaddto":
				b.mod.Method, b.mod.Class = so.Method, so.Class
			case "tidset", "msgaddto":
				copy(b.mod.TID[:], unHex(so.TID))
			case "tidrandom":
				b.mod.TID = m.TransactionID
			}
			if !adds {
				continue
			}
			if ai >= len(r.Attrs) {
				return fmt.Errorf("after Build: setter %s left no attribute on the wire", so.Kind)
			}
			a := r.Attrs[ai]
			if a.WireType != at || (al >= 0 && a.Len != al) {
				return fmt.Errorf("after Build: attribute %d is (type %#04x len %d), setter %s should add (type %#04x len %d)", ai, a.WireType, a.Len, so.Kind, at, al)
			}
			b.mod.Attrs = append(b.mod.Attrs, mAttr{Type: at, Value: append([]byte(nil), a.Value...)})
			b.lenOps++
			if a.Len%4 != 0 {
				b.oddLen = true
			}
			if at == 0x0008 || at == 0x8028 {
				b.hasSeal = true
			}
			ai++
		}
	default:
		s, addType, addLen, adds := o.setter()
		if s == nil {
			return fmt.Errorf("harness: unknown op %q", o.Kind)
		}
		isMI := o.Kind == "mi" || o.Kind == "mishort" || o.Kind == "milong"
		err := s.AddTo(m)
		if isMI && b.mod.has(0x8028) {
			if err != stun.ErrFingerprintBeforeIntegrity { //nolint:errorlint
				return fmt.Errorf("integrity after FINGERPRINT returned %v, want ErrFingerprintBeforeIntegrity", err)
			}

			return nil
		}
		if err != nil {
			return fmt.Errorf("%s returned %v for an in-limit value", o.Kind, err)
		}
		switch o.Kind {
		case "typeaddto":
			b.mod.Method, b.mod.Class = o.Method, o.Class
		case "tidset", "msgaddto":
			copy(b.mod.TID[:], unHex(o.TID))
		case "tidrandom":
			b.mod.TID = m.TransactionID
		}
		if adds {
			if err := b.noteAdded(o, addType, addLen); err != nil {
				return err
			}
			if addType == 0x0008 || addType == 0x8028 {
				b.hasSeal = true
			}
		}
	}

	return nil
}

func fpBefore(ops []bop) bool {
	for _, o := range ops {
		if _, at, _, adds := o.setter(); adds && at == 0x8028 {
			return true
		}
	}

	return false
}

// spy wraps a setter so Build receives pointer setters.
type spy struct {
	inner stun.Setter
	calls int
}

func (s *spy) AddTo(m *stun.Message) error {
	s.calls++

	return s.inner.AddTo(m)
}

// start creates the builder from a start op.
func startBuilder(o bop) (*builder, error) {
	b := &builder{}
	switch o.Kind {
	case "start-build":
		b.m = new(stun.Message)
		o2 := o
		o2.Kind = "build"
		if err := b.apply(o2); err != nil {
			return nil, err
		}
	case "start-new":
		b.m = stun.New()
		b.m.WriteHeader()
	case "start-writeheader":
		b.m = new(stun.Message)
		b.m.WriteHeader()
	case "start-cap":
		// a Message whose buffer the caller provides: any capacity, poisoned, so that every growth
		// boundary (also one that falls between a value and its padding) is reached
		buf := make([]byte, o.Port)
		for i := range buf {
			buf[i] = 0xA7
		}
		b.m = &stun.Message{Raw: buf[:0]}
		b.m.WriteHeader()
	case "start-encode":
		b.m = new(stun.Message)
		b.m.Encode()
	case "start-decode", "start-decode-dirty", "start-decode-trailing":
		wire := unHex(o.Val)
		b.m = new(stun.Message)
		if err := stun.Decode(wire, b.m); err != nil {
			return nil, fmt.Errorf("harness: start message does not decode: %w", err)
		}
		r, ok := ref.Parse(wire)
		if !ok {
			return nil, fmt.Errorf("harness: start message rejected by reference")
		}
		if o.Kind == "start-decode-dirty" {
			b.m.Encode()
		}
		b.trailing = o.Kind == "start-decode-trailing"
		b.mod.Method, b.mod.Class, b.mod.TID = r.Method, r.Class, r.TID
		for _, a := range r.Attrs {
			b.mod.Attrs = append(b.mod.Attrs, mAttr{Type: a.Type, Value: append([]byte(nil), a.Value...)})
			if a.Type == 0x0008 || a.Type == 0x8028 {
				b.hasSeal = true
			}
		}
	default:
		return nil, fmt.Errorf("harness: unknown start %q", o.Kind)
	}

	return b, nil
}

// invariant is C03's oracle, evaluated after every step.
func (b *builder) invariant() error {
	m := b.m
	r, ok := ref.Parse(m.Raw)
	if !ok {
		return fmt.Errorf("raw bytes (%d) are not a well-formed RFC 5389 message: %s", len(m.Raw), evidHex(m.Raw))
	}
	if len(m.Raw) != 20+r.Length && !b.trailing {
		return fmt.Errorf("header length %d but %d bytes follow the header", r.Length, len(m.Raw)-20)
	}
	if int(m.Length) != r.Length || r.Length%4 != 0 {
		return fmt.Errorf("m.Length=%d, header length=%d", m.Length, r.Length)
	}
	if !ref.PaddingZero(m.Raw, r) {
		return fmt.Errorf("non-zero padding byte in %s", evidHex(m.Raw))
	}
	wantType := ref.TypeValue(b.mod.Method, b.mod.Class)
	if r.TypeRaw != wantType || uint16(m.Type.Method) != b.mod.Method || uint8(m.Type.Class) != b.mod.Class {
		return fmt.Errorf("type: wire %#04x, struct %v, model method %#x class %d (wire %#04x)", r.TypeRaw, m.Type, b.mod.Method, b.mod.Class, wantType)
	}
	if r.TID != b.mod.TID || m.TransactionID != b.mod.TID {
		return fmt.Errorf("transaction id: wire %x struct %x model %x", r.TID, m.TransactionID, b.mod.TID)
	}
	if len(r.Attrs) != len(b.mod.Attrs) || len(m.Attributes) != len(b.mod.Attrs) {
		return fmt.Errorf("attribute count: wire %d struct %d model %d", len(r.Attrs), len(m.Attributes), len(b.mod.Attrs))
	}
	for i, ma := range b.mod.Attrs {
		wa, sa := r.Attrs[i], m.Attributes[i]
		if wa.WireType != ma.Type || string(wa.Value) != string(ma.Value) {
			return fmt.Errorf("attribute %d: wire (type %#04x value %s) model (type %#04x value %s)", i, wa.WireType, evidHex(wa.Value), ma.Type, evidHex(ma.Value))
		}
		if uint16(sa.Type) != ma.Type || int(sa.Length) != len(ma.Value) || string(sa.Value) != string(ma.Value) {
			return fmt.Errorf("attribute %d: struct (type %#04x len %d value %s) model (type %#04x value %s)", i, uint16(sa.Type), sa.Length, evidHex(sa.Value), ma.Type, evidHex(ma.Value))
		}
	}
	fresh := new(stun.Message)
	if err := stun.Decode(m.Raw, fresh); err != nil {
		return fmt.Errorf("library cannot decode its own bytes: %w", err)
	}
	if err := agree(fresh, r); err != nil {
		return fmt.Errorf("re-decoded message vs wire: %w", err)
	}
	if fresh.Type != m.Type || fresh.TransactionID != m.TransactionID || fresh.Length != m.Length {
		return fmt.Errorf("re-decoded header differs from struct")
	}
	if !m.Equal(fresh) || !fresh.Equal(m) {
		return fmt.Errorf("Equal(struct, decode(struct.Raw)) is false although type, id, length and all %d attributes are identical (struct Attributes nil=%v, decoded nil=%v)",
			len(m.Attributes), m.Attributes == nil, fresh.Attributes == nil)
	}
	fresh.Encode()
	canon := ref.Encode(b.mod.Method, b.mod.Class, b.mod.TID, b.mod.eattrs())
	if string(fresh.Raw) != string(canon) {
		return fmt.Errorf("decode-then-encode does not reproduce the canonical bytes")
	}
	if raw := m.Raw; string(raw[:min(len(raw), 20+r.Length)]) != string(canon) || (len(raw) != len(canon) && !b.trailing) {
		return fmt.Errorf("raw bytes differ from the canonical encoding of the model")
	}

	return nil
}

func evidHex(b []byte) string {
	if len(b) > 80 {
		return fmt.Sprintf("%x..(%d bytes)", b[:64], len(b))
	}

	return fmt.Sprintf("%x", b)
}

// ---- generators -----------------------------------------------------------

func genIP(rt *rapid.T) []byte {
	switch rapid.IntRange(0, 4).Draw(rt, "ipKind") {
	case 4:
		// near-miss of the IPv4-mapped form: the ::ffff:a.b.c.d prefix with exactly one of its 12
		// bytes changed is a genuine IPv6 address and must be encoded as one
		ip := net.IP(rapid.SliceOfN(rapid.Byte(), 4, 4).Draw(rt, "ip4n")).To16()
		i := rapid.IntRange(0, 11).Draw(rt, "prefixByte")
		ip[i] ^= byte(rapid.IntRange(1, 255).Draw(rt, "prefixDelta"))

		return ip
	case 0:
		return rapid.SliceOfN(rapid.Byte(), 4, 4).Draw(rt, "ip4")
	case 1:
		ip := rapid.SliceOfN(rapid.Byte(), 16, 16).Draw(rt, "ip6")
		if net.IP(ip).To4() != nil {
			ip[0] = 0x20
		}

		return ip
	case 2: // IPv4-mapped, 16 bytes
		return net.IP(rapid.SliceOfN(rapid.Byte(), 4, 4).Draw(rt, "ip4m")).To16()
	default:
		return rapid.SampledFrom([][]byte{{0, 0, 0, 0}, {255, 255, 255, 255}, net.IPv6loopback, net.IPv6unspecified, {127, 0, 0, 1}}).Draw(rt, "ipEdge")
	}
}

func genPort(rt *rapid.T) int {
	if rapid.Bool().Draw(rt, "portEdge") {
		return rapid.SampledFrom([]int{0, 1, 0x2112, 0x2113, 0x7FFF, 0x8000, 0xA442, 3478, 5349, 65534, 65535}).Draw(rt, "portE")
	}

	return rapid.IntRange(0, 65535).Draw(rt, "port")
}

func genTIDHex(rt *rapid.T) hx {
	id := gen.TID().Draw(rt, "tid")

	return toHex(id[:])
}

// addType draws a type for Add/Raw/AddToAs; 0x8020 is excluded (it is a
// decode-side alias: adding it and re-decoding legitimately yields 0x0020).
func addType(rt *rapid.T) uint16 {
	t := gen.AttrType().Draw(rt, "type")
	if t == 0x8020 {
		t = 0x0020
	}

	return t
}

func genText(rt *rapid.T, limit int) hx {
	n := rapid.OneOf(rapid.IntRange(0, 12), rapid.IntRange(0, limit), rapid.SampledFrom([]int{limit - 2, limit - 1, limit})).Draw(rt, "textLen")

	return toHex(gen.Bytes(rt, n, "text"))
}

// genAttrOp draws one attribute-adding setter op (usable inside Build).
// allowSeal permits integrity/fingerprint ops.
func genAttrOp(rt *rapid.T, allowSeal bool, maxVal int) bop {
	kinds := []string{"raw", "raw", "xor", "xoras", "mapped", "mappedas", "alt", "origin", "other", "username", "realm", "nonce", "software", "errattr", "errcode", "unknown"}
	if allowSeal {
		kinds = append(kinds, "mi", "mishort", "milong", "fp", "fp")
	}
	o := bop{Kind: rapid.SampledFrom(kinds).Draw(rt, "kind")}
	switch o.Kind {
	case "raw":
		o.Type = addType(rt)
		o.Val = toHex(gen.Bytes(rt, gen.ValueLen(maxVal).Draw(rt, "valLen"), "val"))
		o.Port = rapid.IntRange(0, 65535).Draw(rt, "junkLength")
	case "xor", "mapped", "alt", "origin", "other":
		o.IP, o.Port = toHex(genIP(rt)), genPort(rt)
	case "xoras", "mappedas":
		o.IP, o.Port, o.Type = toHex(genIP(rt)), genPort(rt), addType(rt)
	case "username":
		o.Val = genText(rt, 513)
	case "realm", "nonce", "software":
		o.Val = genText(rt, 763)
	case "errattr":
		o.Code = rapid.IntRange(300, 699).Draw(rt, "code")
		o.Val = genText(rt, 763)
	case "errcode":
		o.Code = rapid.SampledFrom(defaultReasonCodes).Draw(rt, "dcode")
	case "unknown":
		o.Types = rapid.SliceOfN(rapid.Uint16(), 0, 24).Draw(rt, "types")
	case "mi":
		o.Key = toHex(genKey(rt))
	case "mishort":
		o.Pass = rapid.StringN(0, 40, 80).Draw(rt, "pass")
	case "milong":
		o.User, o.Realm, o.Pass = rapid.StringN(0, 12, 24).Draw(rt, "user"), rapid.StringN(0, 12, 24).Draw(rt, "realm"), rapid.StringN(0, 12, 24).Draw(rt, "pass")
	}

	return o
}

func genKey(rt *rapid.T) []byte {
	n := rapid.OneOf(rapid.IntRange(0, 40), rapid.SampledFrom([]int{0, 1, 16, 20, 63, 64, 65, 66, 127, 128, 129, 200}), rapid.IntRange(0, 200)).Draw(rt, "keyLen")

	return gen.Bytes(rt, n, "key")
}

// genHeaderOp draws a type / transaction-id op usable inside Build.
func genHeaderOp(rt *rapid.T) bop {
	o := bop{Kind: rapid.SampledFrom([]string{"typeaddto", "tidset", "tidrandom", "msgaddto"}).Draw(rt, "hkind")}
	switch o.Kind {
	case "typeaddto":
		o.Method, o.Class = genMethod(rt), uint8(rapid.IntRange(0, 3).Draw(rt, "class"))
	case "tidset", "msgaddto":
		o.TID = genTIDHex(rt)
	}

	return o
}

func genMethod(rt *rapid.T) uint16 {
	return uint16(rapid.OneOf(rapid.IntRange(0, 0xFFF), rapid.SampledFrom([]int{0, 1, 3, 0xF, 0x10, 0x7F, 0x80, 0xF80, 0xFFF})).Draw(rt, "method"))
}

func genSetterList(rt *rapid.T, maxN int, allowSeal bool) []bop {
	n := rapid.IntRange(0, maxN).Draw(rt, "nSetters")
	out := make([]bop, 0, n)
	for i := 0; i < n; i++ {
		if rapid.IntRange(0, 4).Draw(rt, "hdr") == 0 {
			out = append(out, genHeaderOp(rt))
		} else {
			out = append(out, genAttrOp(rt, allowSeal, 4000))
		}
	}

	return out
}

// genStep draws any building operation.
func genStep(rt *rapid.T) bop {
	switch rapid.IntRange(0, 19).Draw(rt, "stepClass") {
	case 0, 1, 2, 3:
		return bop{Kind: "add", Type: addType(rt), Val: toHex(gen.Bytes(rt, gen.ValueLen(65000).Draw(rt, "valLen"), "val"))}
	case 4, 5, 6, 7, 8, 9, 10:
		return genAttrOp(rt, true, 65000)
	case 11:
		return bop{Kind: "settype", Method: genMethod(rt), Class: uint8(rapid.IntRange(0, 3).Draw(rt, "class"))}
	case 12:
		return genHeaderOp(rt)
	case 13:
		return bop{Kind: "newtid"}
	case 14:
		return bop{Kind: rapid.SampledFrom([]string{"writeheader", "writelength", "writetype", "writetid"}).Draw(rt, "w")}
	case 15:
		return bop{Kind: "encode"}
	case 16:
		return bop{Kind: "encode-fields", Port: rapid.IntRange(0, 3).Draw(rt, "keepAttrs")}
	default:
		return bop{Kind: "build", Sub: genSetterList(rt, 6, true)}
	}
}

func genStart(rt *rapid.T) bop {
	switch rapid.IntRange(0, 8).Draw(rt, "startClass") {
	case 8:
		return bop{Kind: "start-cap", Port: rapid.IntRange(0, 160).Draw(rt, "rawCap")}
	case 7:
		// a canonical message followed by bytes that do not belong to it (tolerated by the decoder)
		w := gen.WireMsg(rt, 6, 800, true)
		dropAlias(&w)
		w.Trailing = rapid.SliceOfN(rapid.Byte(), 1, 64).Draw(rt, "trailing")

		return bop{Kind: "start-decode-trailing", Val: toHex(w.Bytes())}
	case 0, 1:
		return bop{Kind: "start-build", Sub: genSetterList(rt, 5, true)}
	case 2:
		return bop{Kind: "start-new"}
	case 3:
		return bop{Kind: rapid.SampledFrom([]string{"start-writeheader", "start-encode"}).Draw(rt, "zero")}
	case 4, 5:
		w := gen.WireMsg(rt, 8, 2000, true)
		dropAlias(&w)

		return bop{Kind: "start-decode", Val: toHex(w.Bytes())}
	default:
		w := gen.WireMsg(rt, 8, 2000, false)

		return bop{Kind: "start-decode-dirty", Val: toHex(w.Bytes())}
	}
}

// dropAlias replaces the legacy 0x8020 type in canonical starts (a decoded
// struct holds 0x0020 for it while the wire keeps 0x8020; only a re-encode
// normalises that, see DESIGN D1).
func dropAlias(w *gen.Wire) {
	for i := range w.Attrs {
		if w.Attrs[i].Type == 0x8020 {
			w.Attrs[i].Type = 0x0020
		}
	}
}
