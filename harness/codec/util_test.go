package codec

import (
	"encoding/hex"
	"fmt"
	"os"
	"sync"
	"sync/atomic"
	"testing"
	"time"
	"unsafe"

	"github.com/pion/stun/v3"
	"github.com/pion/stun/v3/verifharness/evid"
	"github.com/pion/stun/v3/verifharness/ref"
	"pgregory.net/rapid"
)

// hx is a hex string that marshals compactly in replay files.
type hx = string

func toHex(b []byte) hx { return hex.EncodeToString(b) }

func unHex(s hx) []byte {
	b, err := hex.DecodeString(s)
	if err != nil {
		panic("bad hex in replay: " + err.Error())
	}

	return b
}

// ---- watchdog: termination is part of C01; a hung call is reported with the
// case that was running. Operations take microseconds; 30 s without progress
// is the verdict (DESIGN D8).
var (
	wdBeat  atomic.Int64
	wdCase  atomic.Value // wdInfo
	wdOnce  sync.Once
	wdLimit = 30 * time.Second
)

type wdInfo struct {
	prop, kind string
	c          any
}

func watchdogStart() {
	wdOnce.Do(func() {
		go func() {
			last, since := int64(-1), time.Now()
			for {
				time.Sleep(500 * time.Millisecond)
				cur := wdBeat.Load()
				info, _ := wdCase.Load().(wdInfo)
				if cur != last || info.prop == "" {
					last, since = cur, time.Now()

					continue
				}
				if time.Since(since) > wdLimit {
					rec := evid.For(info.prop)
					rec.Violation(info.kind, info.c, fmt.Sprintf("call did not return within %v (non-termination)", wdLimit))
					evid.Flush()
					fmt.Fprintf(os.Stderr, "watchdog: %s case hung\n", info.prop)
					os.Exit(1)
				}
			}
		}()
	})
}

// guarded marks a library call as in progress for the watchdog.
func guarded(prop, kind string, c any, f func()) {
	watchdogStart()
	wdCase.Store(wdInfo{prop, kind, c})
	wdBeat.Add(1)
	f()
	wdBeat.Add(1)
	wdCase.Store(wdInfo{})
}

// inside reports whether p's first byte lies inside arr's backing array.
func inside(p, arr []byte) bool {
	if cap(p) == 0 || cap(arr) == 0 {
		return false
	}
	pp := uintptr(unsafe.Pointer(unsafe.SliceData(p)))
	a0 := uintptr(unsafe.Pointer(unsafe.SliceData(arr)))

	return pp >= a0 && pp < a0+uintptr(cap(arr))
}

// attrList flattens a library message into reference form.
type flatAttr struct {
	Type  uint16
	Len   int
	Value []byte
}

func flatten(m *stun.Message) []flatAttr {
	out := make([]flatAttr, 0, len(m.Attributes))
	for _, a := range m.Attributes {
		out = append(out, flatAttr{uint16(a.Type), int(a.Length), a.Value})
	}

	return out
}

// agree compares a library message with a reference parse.
func agree(m *stun.Message, r ref.Msg) error {
	if uint16(m.Type.Method) != r.Method || uint8(m.Type.Class) != r.Class {
		return fmt.Errorf("type: library method %#x class %d, reference method %#x class %d", uint16(m.Type.Method), m.Type.Class, r.Method, r.Class)
	}
	if int(m.Length) != r.Length {
		return fmt.Errorf("length: library %d, reference %d", m.Length, r.Length)
	}
	if m.TransactionID != r.TID {
		return fmt.Errorf("transaction id: library %x, reference %x", m.TransactionID, r.TID)
	}
	if len(m.Attributes) != len(r.Attrs) {
		return fmt.Errorf("attribute count: library %d, reference %d", len(m.Attributes), len(r.Attrs))
	}
	for i, a := range m.Attributes {
		ra := r.Attrs[i]
		if uint16(a.Type) != ra.Type || int(a.Length) != ra.Len || string(a.Value) != string(ra.Value) {
			return fmt.Errorf("attribute %d: library (type %#04x len %d value %x), reference (type %#04x len %d value %x)",
				i, uint16(a.Type), a.Length, a.Value, ra.Type, ra.Len, ra.Value)
		}
	}

	return nil
}

// poolBytes returns a deterministic filler pool derived from VERIF_SEED
// through rapid's generators.
func poolBytes(n int) []byte {
	return rapid.SliceOfN(rapid.Byte(), n, n).Example(int(evid.Seed()))
}

func ifThen(c bool, a, b string) string {
	if c {
		return a
	}

	return b
}

var _ = testing.Short
