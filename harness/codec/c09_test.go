package codec

import (
	"encoding/json"
	"errors"
	"fmt"
	"testing"

	"github.com/pion/stun/v3"
	"github.com/pion/stun/v3/verifharness/evid"
	"github.com/pion/stun/v3/verifharness/gen"
	"github.com/pion/stun/v3/verifharness/pbt"
	"github.com/pion/stun/v3/verifharness/ref"
	"pgregory.net/rapid"
)

type c09Case struct {
	Before []bop `json:"before,omitempty"` // message content preceding the call (applied with Build)
	Op     bop   `json:"op,omitempty"`     // the setter under test ...
	List   []bop `json:"list,omitempty"`   // ... or a Build list (Op unused)
}

var knownDefaultReason = func() map[int]bool {
	m := map[int]bool{}
	for _, c := range defaultReasonCodes {
		m[c] = true
	}

	return m
}()

// expectation of a single setter given whether FINGERPRINT is already present.
// "either" = the statement leaves it open (codes 300..699 without a default reason today).
func expectFor(o bop, fpPresent bool) string {
	switch o.Kind {
	case "username":
		return ifThen(len(o.Val)/2 <= 513, "nil", "overflow")
	case "realm", "nonce", "software":
		return ifThen(len(o.Val)/2 <= 763, "nil", "overflow")
	case "textas":
		if o.Port < 0 {
			return "nil" // documented: "If maxLen is less than 0, no check is performed"
		}

		return ifThen(len(o.Val)/2 <= o.Port, "nil", "overflow")
	case "errattr":
		return ifThen(len(o.Val)/2 <= 763, "nil", "overflow")
	case "xor", "xoras", "mapped", "mappedas", "alt", "origin", "other":
		n := len(o.IP) / 2

		return ifThen(n == 4 || n == 16, "nil", "badip")
	case "errcode":
		switch {
		case o.Code < 300 || o.Code > 699:
			return "noreason"
		case knownDefaultReason[o.Code]:
			return "nil"
		default:
			return "either"
		}
	case "mi", "mishort", "milong":
		return ifThen(fpPresent, "fpbeforemi", "nil")
	}

	return "nil"
}

func classify(err error) string {
	switch {
	case err == nil:
		return "nil"
	case stun.IsAttrSizeOverflow(err):
		return "overflow"
	case errors.Is(err, stun.ErrBadIPLength):
		return "badip"
	case errors.Is(err, stun.ErrNoDefaultReason):
		return "noreason"
	case errors.Is(err, stun.ErrFingerprintBeforeIntegrity):
		return "fpbeforemi"
	}

	return "other:" + err.Error()
}

func hasFP(m *stun.Message) bool {
	for _, a := range m.Attributes {
		if a.Type == stun.AttrFingerprint {
			return true
		}
	}

	return false
}

func runC09(c c09Case) error {
	b, err := startBuilder(bop{Kind: "start-build", Sub: c.Before})
	if err != nil {
		return err
	}
	m := b.m
	if len(c.List) == 0 {
		s, addType, _, _ := c.Op.setter()
		if s == nil {
			return fmt.Errorf("harness: %q is not a setter", c.Op.Kind)
		}
		want := expectFor(c.Op, hasFP(m))
		before := snapMsg(m)
		var aerr error
		var perr error
		guarded("C09", "setter", c, func() { perr = pbt.Safely(func() { aerr = s.AddTo(m) }) })
		if perr != nil {
			return perr
		}
		got := classify(aerr)
		if want != "either" && got != want {
			return fmt.Errorf("%s (value %d bytes, ip %d bytes, code %d): returned %q, want %s", c.Op.Kind, len(c.Op.Val)/2, len(c.Op.IP)/2, c.Op.Code, got, want)
		}
		if want == "either" && got != "nil" && got != "noreason" {
			return fmt.Errorf("ErrorCode(%d).AddTo returned %q", c.Op.Code, got)
		}
		if aerr != nil {
			if derr := before.diff(m); derr != nil {
				return fmt.Errorf("%s failed with %q but changed the message: %w", c.Op.Kind, got, derr)
			}

			return nil
		}
		// accepted: exactly one well-formed attribute appended
		r, ok := ref.Parse(m.Raw)
		if !ok || len(r.Attrs) != before.n+1 || len(m.Attributes) != before.n+1 {
			return fmt.Errorf("%s accepted but the message now has %d attributes on the wire (ok=%v), %d in the struct, want %d", c.Op.Kind, len(r.Attrs), ok, len(m.Attributes), before.n+1)
		}
		if r.Attrs[before.n].WireType != addType {
			return fmt.Errorf("%s appended type %#04x, want %#04x", c.Op.Kind, r.Attrs[before.n].WireType, addType)
		}
		if c.Op.Kind == "errcode" {
			var e stun.ErrorCodeAttribute
			d := new(stun.Message)
			if derr := stun.Decode(m.Raw, d); derr != nil {
				return derr
			}
			if before.n == 0 || !containsType(before, 0x0009) {
				if gerr := e.GetFrom(d); gerr != nil || int(e.Code) != c.Op.Code {
					return fmt.Errorf("accepted ErrorCode(%d) reads back as %d (%v)", c.Op.Code, e.Code, gerr)
				}
			}
		}

		return nil
	}
	// Build with a list: spies record invocations
	setters := make([]stun.Setter, len(c.List))
	spies := make([]*spy, len(c.List))
	failAt, wantClass := -1, "nil"
	fp := false
	for i, o := range c.List {
		s, at, _, adds := o.setter()
		if s == nil {
			return fmt.Errorf("harness: %q is not a setter", o.Kind)
		}
		spies[i] = &spy{inner: s}
		setters[i] = spies[i]
		if failAt < 0 {
			e := expectFor(o, fp)
			if e == "either" {
				return nil // not generated; guard for hand-made replays
			}
			if e != "nil" {
				failAt, wantClass = i, e
			}
			if adds && at == 0x8028 {
				fp = true
			}
		}
	}
	var berr error
	var perr error
	guarded("C09", "setter", c, func() { perr = pbt.Safely(func() { berr = m.Build(setters...) }) })
	if perr != nil {
		return perr
	}
	if got := classify(berr); got != wantClass {
		return fmt.Errorf("Build returned %q, want %s (first failing setter at index %d)", got, wantClass, failAt)
	}
	for i, s := range spies {
		want := 1
		if failAt >= 0 && i > failAt {
			want = 0
		}
		if s.calls != want {
			return fmt.Errorf("Build invoked setter %d (%s) %d times, want %d (first failure at %d)", i, c.List[i].Kind, s.calls, want, failAt)
		}
	}
	// the package-level Build wrapper: same verdict, and no message on failure
	{
		fresh := make([]stun.Setter, len(c.List))
		fspies := make([]*spy, len(c.List))
		for i, o := range c.List {
			s, _, _, _ := o.setter()
			fspies[i] = &spy{inner: s}
			fresh[i] = fspies[i]
		}
		var pm *stun.Message
		var perr2 error
		if perr := pbt.Safely(func() { pm, perr2 = stun.Build(fresh...) }); perr != nil {
			return perr
		}
		if got := classify(perr2); got != wantClass {
			return fmt.Errorf("stun.Build returned %q, want %s", got, wantClass)
		}
		if (perr2 != nil) != (pm == nil) {
			return fmt.Errorf("stun.Build returned message=%v together with error %v", pm != nil, perr2)
		}
		for i, s := range fspies {
			if want := b2i(failAt < 0 || i <= failAt); s.calls != want {
				return fmt.Errorf("stun.Build invoked setter %d %d times, want %d", i, s.calls, want)
			}
		}
		var mustPanicked bool
		func() {
			defer func() { mustPanicked = recover() != nil }()
			again := make([]stun.Setter, len(c.List))
			for i, o := range c.List {
				again[i], _, _, _ = o.setter()
			}
			_ = stun.MustBuild(again...)
		}()
		if mustPanicked != (failAt >= 0) {
			return fmt.Errorf("MustBuild panicked=%v although the first failing setter index is %d", mustPanicked, failAt)
		}
	}
	if failAt >= 0 {
		// the message equals Build(prefix)
		b2, err := startBuilder(bop{Kind: "start-build", Sub: c.Before})
		if err != nil {
			return err
		}
		prefix := make([]stun.Setter, 0, failAt)
		for _, o := range c.List[:failAt] {
			s, _, _, _ := o.setter()
			prefix = append(prefix, s)
		}
		if err := b2.m.Build(prefix...); err != nil {
			return fmt.Errorf("harness: prefix build failed: %w", err)
		}
		if derr := sameContent(m, b2.m); derr != nil {
			return fmt.Errorf("after Build failed at setter %d (%s) the message differs from Build(prefix): %w", failAt, c.List[failAt].Kind, derr)
		}
	}

	return nil
}

func b2i(b bool) int {
	if b {
		return 1
	}

	return 0
}

func containsType(s msgSnap, t uint16) bool {
	for _, a := range s.attrs {
		if a.Type == t {
			return true
		}
	}

	return false
}

// genC09Op draws a setter with values on both sides of its limit.
func genC09Op(rt *rapid.T) (bop, bool) {
	kind := rapid.SampledFrom([]string{"username", "realm", "nonce", "software", "textas", "errattr", "xor", "xoras", "mapped", "mappedas", "alt", "origin", "other", "errcode", "mi", "mishort", "milong"}).Draw(rt, "kind")
	o := bop{Kind: kind}
	nt := false
	textLen := func(limit int) int {
		n := rapid.OneOf(rapid.IntRange(limit-2, limit+2), rapid.IntRange(0, limit+300), rapid.SampledFrom([]int{0, limit, limit + 1, limit + 300})).Draw(rt, "textLen")
		if n < 0 {
			n = 0
		}
		if n == limit || n == limit+1 {
			nt = true
		}

		return n
	}
	switch kind {
	case "username":
		o.Val = toHex(gen.Bytes(rt, textLen(513), "text"))
	case "realm", "nonce", "software", "errattr":
		o.Val = toHex(gen.Bytes(rt, textLen(763), "text"))
		o.Code = rapid.IntRange(300, 699).Draw(rt, "code")
	case "textas":
		o.Port = rapid.IntRange(0, 1000).Draw(rt, "maxLen")
		o.Type = addType(rt)
		o.Val = toHex(gen.Bytes(rt, textLen(o.Port), "text"))
		if rapid.IntRange(0, 5).Draw(rt, "noLimit") == 0 {
			o.Port = rapid.SampledFrom([]int{-1, -2, -1000}).Draw(rt, "negMaxLen") // "no check"
		}
	case "xor", "xoras", "mapped", "mappedas", "alt", "origin", "other":
		n := rapid.IntRange(0, 20).Draw(rt, "ipLen")
		o.IP = toHex(gen.Bytes(rt, n, "ip"))
		o.Port = genPort(rt)
		o.Type = addType(rt)
		nt = n == 3 || n == 5 || n == 15 || n == 17
	case "errcode":
		o.Code = rapid.IntRange(0, 999).Draw(rt, "code")
	case "mi":
		o.Key = toHex(genKey(rt))
	case "mishort":
		o.Pass = "pw"
	case "milong":
		o.User, o.Realm, o.Pass = "u", "r", "p"
	}

	return o, nt
}

func c09Notes(rec *evid.Rec) {
	rec.Note("rule", "every setter with an error path x values on both sides of its limit: text lengths 0..limit+300 (USERNAME 513; REALM/NONCE/SOFTWARE/ERROR-CODE reason 763; TextAttribute.AddToAs with arbitrary limits), "+
		"IP lengths 0..20 for all address setters incl. AddToAs, ErrorCode.AddTo for codes 0..999, integrity (raw/short/long-term) with and without FINGERPRINT present - applied to an arbitrary preceding message; "+
		"plus Build lists in which spy-wrapped setters surround a failing one. Oracle: error class == expected by construction (nil inside the limit, overflow / bad-IP / no-default-reason / fingerprint-before-integrity outside; "+
		"codes 300..699 without a default reason may go either way but must round-trip if accepted); on error Raw[:len], len, Length and Attributes are unchanged; on success exactly one well-formed attribute of the right type is appended; "+
		"Build returns the first failing setter's error class, later setters are never invoked, and the message equals Build(prefix). Exhaustive sweeps: text lengths limit-2..limit+2, IP lengths 0..20, codes 0..999. "+
		"Non-trivial = value at limit or limit+1, IP length in {3,5,15,17}, or a failing call on a non-empty message; distinct by (setter, sizes, code, preceding size).")
	rec.Note("assumptions", []string{"limits are the library's documented constants (DESIGN D5)", "the -tags debug build is checked by a second phase of the same tests"})
}

func c09Sig(c c09Case) uint64 {
	h := evid.NewH().Str(c.Op.Kind).I(len(c.Op.Val)).I(len(c.Op.IP)).I(c.Op.Code).I(len(c.Before))
	for _, o := range c.List {
		h.Str(o.Kind).I(len(o.Val)).I(len(o.IP)).I(o.Code)
	}

	return h.Sum()
}

func TestC09_Rapid(t *testing.T) {
	rec := evid.For("C09")
	c09Notes(rec)
	pbt.Check(t, rec, "setter", evid.Pick(40000, 400000), func(rt *rapid.T) (any, error) {
		var c c09Case
		nb := rapid.IntRange(0, 4).Draw(rt, "nBefore")
		for i := 0; i < nb; i++ {
			c.Before = append(c.Before, genAttrOp(rt, true, 80))
		}
		nt := false
		if rapid.IntRange(0, 3).Draw(rt, "list") == 0 {
			n := rapid.IntRange(1, 6).Draw(rt, "nList")
			for i := 0; i < n; i++ {
				var o bop
				if rapid.Bool().Draw(rt, "risky") {
					o, _ = genC09Op(rt)
					if o.Kind == "errcode" && expectFor(o, false) == "either" {
						o.Code = 400
					}
				} else {
					o = genAttrOp(rt, true, 40)
				}
				c.List = append(c.List, o)
			}
			nt = true
		} else {
			c.Op, nt = genC09Op(rt)
		}
		cls := "single:" + c.Op.Kind
		if len(c.List) > 0 {
			cls = "build-list"
		}
		err := runC09(c)
		rec.Case(cls, c09Sig(c), nt || len(c.Before) > 0, func() any { return c })

		return c, err
	})
}

func TestC09_Sweeps(t *testing.T) {
	rec := evid.For("C09")
	c09Notes(rec)
	pool := poolBytes(2048)
	run := func(c c09Case, nt bool) bool {
		rec.Case("sweep:"+c.Op.Kind, c09Sig(c), nt, nil)
		if err := runC09(c); err != nil {
			pbt.Fail(t, rec, "setter", c, "%v", err)

			return false
		}

		return true
	}
	before := [][]bop{nil, {{Kind: "software", Val: toHex([]byte("abc"))}, {Kind: "xor", IP: "7f000001", Port: 1}}}
	for _, bf := range before {
		for _, k := range []string{"username", "realm", "nonce", "software", "errattr"} {
			limit := 763
			if k == "username" {
				limit = 513
			}
			for n := limit - 2; n <= limit+2; n++ {
				if !run(c09Case{Before: bf, Op: bop{Kind: k, Val: toHex(pool[:n]), Code: 404}}, true) {
					return
				}
			}
		}
		for _, k := range []string{"xor", "xoras", "mapped", "mappedas", "alt", "origin", "other"} {
			for n := 0; n <= 20; n++ {
				if !run(c09Case{Before: bf, Op: bop{Kind: k, IP: toHex(pool[100 : 100+n]), Port: 80, Type: 0x7001}}, n == 3 || n == 5 || n == 15 || n == 17) {
					return
				}
			}
		}
		for code := 0; code <= 999; code++ {
			if !run(c09Case{Before: bf, Op: bop{Kind: "errcode", Code: code}}, code == 299 || code == 300 || code == 699 || code == 700 || len(bf) > 0) {
				return
			}
		}
	}
	for _, k := range []string{"mi", "mishort", "milong"} {
		if !run(c09Case{Before: []bop{{Kind: "fp"}}, Op: bop{Kind: k, Key: "00", Pass: "p", User: "u", Realm: "r"}}, true) {
			return
		}
		if !run(c09Case{Before: []bop{{Kind: "raw", Type: 0x8028, Val: "00"}}, Op: bop{Kind: k, Key: "00", Pass: "p", User: "u", Realm: "r"}}, true) {
			return
		}
	}
	rec.Exhaustive("text lengths limit-2..limit+2 per text setter; IP lengths 0..20 per address setter; error codes 0..999", true)
}

func TestC09_Replay(t *testing.T) { replayAll(t, "C09") }

func init() {
	replayers["C09/setter"] = func(raw json.RawMessage) error {
		var c c09Case
		if err := json.Unmarshal(raw, &c); err != nil {
			return err
		}

		return runC09(c)
	}
}
