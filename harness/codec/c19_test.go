package codec

import (
	"fmt"
	"testing"

	"github.com/pion/stun/v3"
	"github.com/pion/stun/v3/verifharness/evid"
	"github.com/pion/stun/v3/verifharness/pbt"
	"github.com/pion/stun/v3/verifharness/ref"
)

// c19Case is one point of C19's complete domain.
type c19Case struct {
	Dir    string `json:"dir"` // "encode" (method,class) or "decode" (wire value) or "wire" (through Build+Decode)
	Method uint16 `json:"method"`
	Class  uint8  `json:"class"`
	Wire   uint16 `json:"wire"`
}

func runC19(c c19Case) error {
	switch c.Dir {
	case "encode":
		mt := stun.MessageType{Method: stun.Method(c.Method), Class: stun.MessageClass(c.Class)}
		got, want := mt.Value(), ref.TypeValue(c.Method, c.Class)
		if got != want {
			return fmt.Errorf("Value(method=%#x,class=%d)=%#04x, RFC figure 3 gives %#04x", c.Method, c.Class, got, want)
		}
		if got&0xC000 != 0 {
			return fmt.Errorf("Value(method=%#x,class=%d)=%#04x has leading bits set", c.Method, c.Class, got)
		}
		var back stun.MessageType
		back.ReadValue(got)
		if back != mt {
			return fmt.Errorf("ReadValue(Value(%v)) = %+v", mt, back)
		}
	case "decode":
		var mt stun.MessageType
		mt.ReadValue(c.Wire)
		wc, wm := ref.TypeRead(c.Wire & 0x3FFF)
		if uint16(mt.Method) != wm || uint8(mt.Class) != wc {
			return fmt.Errorf("ReadValue(%#04x) = method %#x class %d, RFC figure 3 gives method %#x class %d",
				c.Wire, uint16(mt.Method), mt.Class, wm, wc)
		}
		if v := mt.Value(); v != c.Wire&0x3FFF {
			return fmt.Errorf("Value(ReadValue(%#04x)) = %#04x, want %#04x", c.Wire, v, c.Wire&0x3FFF)
		}
	case "wire":
		mt := stun.MessageType{Method: stun.Method(c.Method), Class: stun.MessageClass(c.Class)}
		m := new(stun.Message)
		if err := m.Build(mt); err != nil {
			return fmt.Errorf("Build: %v", err)
		}
		rm, ok := ref.Parse(m.Raw)
		if !ok || rm.Method != c.Method || rm.Class != c.Class || rm.TypeRaw != ref.TypeValue(c.Method, c.Class) {
			return fmt.Errorf("Build(method=%#x,class=%d) wrote type %#04x (ref parse ok=%v method=%#x class=%d)",
				c.Method, c.Class, rm.TypeRaw, ok, rm.Method, rm.Class)
		}
		d := new(stun.Message)
		if err := stun.Decode(m.Raw, d); err != nil || d.Type != mt {
			return fmt.Errorf("Decode(Build(%v)) = %v, err %v", mt, d.Type, err)
		}
		// and a header carrying the tolerated leading bits
		raw := append([]byte(nil), m.Raw...)
		raw[0] |= byte(c.Wire >> 8 & 0xC0)
		if err := stun.Decode(raw, d); err != nil || d.Type != mt {
			return fmt.Errorf("Decode(header %x) = %v, err %v; want %v", raw[:2], d.Type, err, mt)
		}
	default:
		return fmt.Errorf("unknown dir %q", c.Dir)
	}

	return nil
}

func TestC19_Exhaustive(t *testing.T) {
	rec := evid.For("C19")
	rec.Note("rule", "complete domain: all 4096x4 (method,class) pairs through Value (and Build+Decode), all 65536 wire values through ReadValue, "+
		"each compared with a bit-by-bit placement from RFC 5389 figure 3; non-trivial = method > 0xF or class != 0 (encode/wire) or value > 0xF (decode), "+
		"i.e. at least one interleaved bit is exercised; distinct by (direction, value)")
	rec.Note("assumptions", []string{"ref.TypeValue/TypeRead transcribe RFC 5389 figure 3 correctly (self-checked against known type values 0x0001/0x0101/0x0111/0x0011/0x3EEF)"})
	for class := 0; class < 4; class++ {
		for method := 0; method < 4096; method++ {
			for _, dir := range []string{"encode", "wire"} {
				c := c19Case{Dir: dir, Method: uint16(method), Class: uint8(class), Wire: uint16(method*7) << 14}
				var err error
				if perr := pbt.Safely(func() { err = runC19(c) }); perr != nil {
					err = perr
				}
				rec.Case(dir, evid.NewH().Str(dir).I(method).I(class).Sum(), method > 0xF || class != 0, func() any { return c })
				if err != nil {
					pbt.Fail(t, rec, "type", c, "%v", err)

					return
				}
			}
		}
	}
	for v := 0; v < 65536; v++ {
		c := c19Case{Dir: "decode", Wire: uint16(v)}
		rec.Case("decode", evid.NewH().Str("decode").I(v).Sum(), v > 0xF, func() any { return c })
		if err := runC19(c); err != nil {
			pbt.Fail(t, rec, "type", c, "%v", err)

			return
		}
	}
	rec.Exhaustive("all (method,class) pairs and all 16-bit wire values", true)
	rec.Note("complete_domain", true)
}

func TestC19_Replay(t *testing.T) { replayAll(t, "C19") }
