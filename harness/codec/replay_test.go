package codec

import (
	"encoding/json"
	"fmt"
	"testing"

	"github.com/pion/stun/v3/verifharness/evid"
	"github.com/pion/stun/v3/verifharness/pbt"
)

// replayers maps "<property>/<kind>" to a function that re-runs a saved case.
var replayers = map[string]func(raw json.RawMessage) error{
	"C19/type": func(raw json.RawMessage) error {
		var c c19Case
		if err := json.Unmarshal(raw, &c); err != nil {
			return fmt.Errorf("bad replay: %w", err)
		}

		return runC19(c)
	},
}

// replayAll re-runs every replay file handed to this process for prop,
// bypassing rapid.
func replayAll(t *testing.T, prop string) {
	t.Helper()
	rec := evid.For(prop)
	for _, path := range evid.ReplayFiles() {
		rp, err := evid.LoadReplay(path)
		if err != nil {
			t.Fatalf("cannot load replay %s: %v", path, err)
		}
		if rp.Property != prop {
			continue
		}
		f := replayers[prop+"/"+rp.Kind]
		if f == nil {
			t.Fatalf("no replayer for %s/%s", prop, rp.Kind)
		}
		var rerr error
		if perr := pbt.Safely(func() { rerr = f(rp.Case) }); perr != nil {
			rerr = perr
		}
		rec.Count("replays_run", 1)
		if rerr != nil {
			rec.ReplayFailed(path, rerr.Error())
			t.Errorf("replay %s still fails: %v", path, rerr)
		}
	}
}
