package codec

import (
	"bytes"
	"encoding/json"
	"fmt"
	"net"
	"testing"

	"github.com/pion/stun/v3"
	"github.com/pion/stun/v3/verifharness/evid"
	"github.com/pion/stun/v3/verifharness/gen"
	"github.com/pion/stun/v3/verifharness/pbt"
	"github.com/pion/stun/v3/verifharness/ref"
	"pgregory.net/rapid"
)

// c06Case is one typed value with its surroundings.
type c06Case struct {
	Attr   string   `json:"attr"` // xor xoras mapped mappedas alt origin other username realm nonce software errattr errcode unknown
	Type   uint16   `json:"type,omitempty"`
	IP     hx       `json:"ip,omitempty"`
	Port   int      `json:"port,omitempty"`
	TID    hx       `json:"tid"`
	Val    hx       `json:"val,omitempty"`
	Code   int      `json:"code,omitempty"`
	Types  []uint16 `json:"types,omitempty"`
	PrevIP hx       `json:"prev_ip,omitempty"` // what the getter's destination held before
	// Reserved: the 21 reserved bits of an ERROR-CODE produced by the independent encoder (RFC 5389 15.6:
	// "SHOULD be 0 ... Receivers MUST ignore these bits")
	Reserved uint32 `json:"reserved,omitempty"`
	Before []bop    `json:"before,omitempty"`  // unrelated attributes preceding it
}

var addrTypes = map[string]uint16{"xor": 0x0020, "mapped": 0x0001, "alt": 0x8023, "origin": 0x802b, "other": 0x802c}
var textTypes = map[string]uint16{"username": 0x0006, "realm": 0x0014, "nonce": 0x0015, "software": 0x8022}

// getAddr runs the getter of an address attribute on m.
func getAddr(kind string, typ uint16, prev net.IP, m *stun.Message) (net.IP, int, error) {
	switch kind {
	case "xor":
		a := &stun.XORMappedAddress{IP: prev}
		err := a.GetFrom(m)

		return a.IP, a.Port, err
	case "xoras":
		a := &stun.XORMappedAddress{IP: prev}
		err := a.GetFromAs(m, stun.AttrType(typ))

		return a.IP, a.Port, err
	case "mapped":
		a := &stun.MappedAddress{IP: prev}
		err := a.GetFrom(m)

		return a.IP, a.Port, err
	case "mappedas":
		a := &stun.MappedAddress{IP: prev}
		err := a.GetFromAs(m, stun.AttrType(typ))

		return a.IP, a.Port, err
	case "alt":
		a := &stun.AlternateServer{IP: prev}
		err := a.GetFrom(m)

		return a.IP, a.Port, err
	case "origin":
		a := &stun.ResponseOrigin{IP: prev}
		err := a.GetFrom(m)

		return a.IP, a.Port, err
	case "other":
		a := &stun.OtherAddress{IP: prev}
		err := a.GetFrom(m)

		return a.IP, a.Port, err
	}

	return nil, 0, fmt.Errorf("harness: not an address kind %q", kind)
}

func runC06(c c06Case) error {
	var tid [12]byte
	copy(tid[:], unHex(c.TID))
	// (a)+(b): library encodes
	setup := append([]bop{{Kind: "tidset", TID: c.TID}}, c.Before...)
	b, err := startBuilder(bop{Kind: "start-build", Sub: setup})
	if err != nil {
		return err
	}
	op := bop{Kind: c.Attr, Type: c.Type, IP: c.IP, Port: c.Port, Val: c.Val, Code: c.Code, Types: c.Types}
	if err := b.apply(op); err != nil {
		return err
	}
	raw := append([]byte(nil), b.m.Raw...)
	r, ok := ref.Parse(raw)
	if !ok {
		return fmt.Errorf("message with the attribute is not well-formed")
	}
	wire := r.Attrs[len(r.Attrs)-1]
	fresh := new(stun.Message)
	if err := stun.Decode(raw, fresh); err != nil {
		return fmt.Errorf("re-decode: %w", err)
	}
	prev := net.IP(unHex(c.PrevIP))
	if len(prev) == 0 {
		prev = nil
	}
	switch {
	case c.Attr == "xor" || c.Attr == "xoras" || c.Attr == "mapped" || c.Attr == "mappedas" || c.Attr == "alt" || c.Attr == "origin" || c.Attr == "other":
		ip := net.IP(unHex(c.IP))
		norm := ip
		if v4 := ip.To4(); v4 != nil {
			norm = v4
		}
		isXor := c.Attr == "xor" || c.Attr == "xoras"
		typ := c.Type
		if t, ok := addrTypes[c.Attr]; ok {
			typ = t
		}
		var want []byte
		if isXor {
			want = ref.EncodeXor(norm, c.Port, tid)
		} else {
			want = ref.EncodeMapped(norm, c.Port)
		}
		if wire.WireType != typ || !bytes.Equal(wire.Value, want) {
			return fmt.Errorf("library wrote (type %#04x) %x, RFC 5389 15.1/15.2 prescribes (type %#04x) %x", wire.WireType, wire.Value, typ, want)
		}
		// independent decoder reads the library's bytes
		var rip []byte
		var rport int
		var rerr error
		if isXor {
			rip, rport, rerr = ref.DecodeXor(wire.Value, tid)
		} else {
			rip, rport, rerr = ref.DecodeMapped(wire.Value)
		}
		if rerr != nil || !bytes.Equal(rip, norm) || rport != c.Port {
			return fmt.Errorf("independent decoder reads the library's bytes as %v:%d (%v), want %v:%d", net.IP(rip), rport, rerr, ip, c.Port)
		}
		// (a) round trip through the library
		gip, gport, gerr := getAddr(c.Attr, typ, append(net.IP(nil), prev...), fresh)
		if gerr != nil || !gip.Equal(ip) || gport != c.Port {
			return fmt.Errorf("round trip: got %v:%d (%v), want %v:%d (destination previously held %d-byte IP)", gip, gport, gerr, ip, c.Port, len(prev))
		}
		// (c) RFC -> library
		filler := uint16(0x7F7F)
		if typ == filler {
			filler = 0x7F7E
		}
		rm := ref.Encode(1, 2, tid, []ref.EAttr{{Type: filler, Value: []byte("x")}, {Type: typ, Value: want}})
		dm := new(stun.Message)
		if err := stun.Decode(rm, dm); err != nil {
			return fmt.Errorf("reference-encoded message rejected: %w", err)
		}
		gip, gport, gerr = getAddr(c.Attr, typ, append(net.IP(nil), prev...), dm)
		if gerr != nil || !gip.Equal(ip) || gport != c.Port {
			return fmt.Errorf("RFC-encoded attribute %x read as %v:%d (%v), want %v:%d", want, gip, gport, gerr, ip, c.Port)
		}
	case textTypes[c.Attr] != 0:
		val := unHex(c.Val)
		typ := textTypes[c.Attr]
		if wire.WireType != typ || !bytes.Equal(wire.Value, val) {
			return fmt.Errorf("text attribute written as (type %#04x, %d bytes), want (type %#04x, %d bytes)", wire.WireType, wire.Len, typ, len(val))
		}
		rm := ref.Encode(1, 0, tid, []ref.EAttr{{Type: typ, Value: val}})
		dm := new(stun.Message)
		if err := stun.Decode(rm, dm); err != nil {
			return err
		}
		for _, mm := range []*stun.Message{fresh, dm} {
			var got []byte
			var gerr error
			switch c.Attr {
			case "username":
				var u stun.Username
				gerr = u.GetFrom(mm)
				got = u
			case "realm":
				var u stun.Realm
				gerr = u.GetFrom(mm)
				got = u
			case "nonce":
				var u stun.Nonce
				gerr = u.GetFrom(mm)
				got = u
			case "software":
				var u stun.Software
				gerr = u.GetFrom(mm)
				got = u
			}
			if gerr != nil || !bytes.Equal(got, val) {
				return fmt.Errorf("%s round trip: got %d bytes (%v), want %d bytes", c.Attr, len(got), gerr, len(val))
			}
		}
	case c.Attr == "errattr" || c.Attr == "errcode":
		want := ref.EncodeErrorCode(c.Code, unHex(c.Val))
		if c.Attr == "errattr" {
			if wire.WireType != 0x0009 || !bytes.Equal(wire.Value, want) {
				return fmt.Errorf("ERROR-CODE %d written as %x, RFC 5389 15.6 prescribes %x", c.Code, evidHex(wire.Value), evidHex(want))
			}
		}
		rc, rreason, rerr := ref.DecodeErrorCode(wire.Value)
		if rerr != nil || rc != c.Code {
			return fmt.Errorf("independent decoder reads ERROR-CODE as %d (%v), want %d", rc, rerr, c.Code)
		}
		if c.Attr == "errcode" && len(rreason) == 0 {
			return fmt.Errorf("default reason for %d is empty", c.Code)
		}
		rfc := append([]byte(nil), want...)
		rfc[0], rfc[1], rfc[2] = byte(c.Reserved>>13), byte(c.Reserved>>5), rfc[2]|byte(c.Reserved<<3)
		rm := ref.Encode(1, 3, tid, []ref.EAttr{{Type: 0x0009, Value: rfc}})
		dm := new(stun.Message)
		if err := stun.Decode(rm, dm); err != nil {
			return err
		}
		for i, mm := range []*stun.Message{fresh, dm} {
			var e stun.ErrorCodeAttribute
			if gerr := e.GetFrom(mm); gerr != nil || int(e.Code) != c.Code {
				return fmt.Errorf("ERROR-CODE round trip (%d: %s, reserved bits %#x): got %d (%v), want %d", i, ifThen(i == 0, "library-encoded", "RFC-encoded"), uint32(i)*c.Reserved, e.Code, gerr, c.Code)
			}
			if (c.Attr == "errattr" || i == 1) && !bytes.Equal(e.Reason, unHex(c.Val)) {
				return fmt.Errorf("ERROR-CODE reason round trip (%d): got %q", i, e.Reason)
			}
		}
	case c.Attr == "unknown":
		want := ref.EncodeUnknown(c.Types)
		if wire.WireType != 0x000A || !bytes.Equal(wire.Value, want) {
			return fmt.Errorf("UNKNOWN-ATTRIBUTES %04x written as %x, RFC 5389 15.9 prescribes 16-bit entries: %x", c.Types, wire.Value, want)
		}
		rm := ref.Encode(1, 3, tid, []ref.EAttr{{Type: 0x000A, Value: want}})
		dm := new(stun.Message)
		if err := stun.Decode(rm, dm); err != nil {
			return err
		}
		for i, mm := range []*stun.Message{fresh, dm} {
			got := make(stun.UnknownAttributes, 3) // reused destination with stale entries
			if gerr := got.GetFrom(mm); gerr != nil {
				return fmt.Errorf("UNKNOWN-ATTRIBUTES (%d: %s) with %d types: getter returned %v", i, ifThen(i == 0, "library-encoded", "RFC-encoded"), len(c.Types), gerr)
			}
			if len(got) != len(c.Types) {
				return fmt.Errorf("UNKNOWN-ATTRIBUTES (%s) list of %d types read back as %d types", ifThen(i == 0, "library-encoded", "RFC-encoded"), len(c.Types), len(got))
			}
			for j, t := range c.Types {
				if uint16(got[j]) != t {
					return fmt.Errorf("UNKNOWN-ATTRIBUTES entry %d read as %#04x, want %#04x", j, uint16(got[j]), t)
				}
			}
		}
	default:
		return fmt.Errorf("harness: unknown attr %q", c.Attr)
	}
	// (e) the value is still the value after it has been added: a setter that is used again (the
	// same address / text / list for the next message) writes the same attribute, and what the
	// caller passed in is untouched
	setterBufs, trackSetterBufs = nil, true
	st, _, _, _ := op.setter()
	bufs := setterBufs
	trackSetterBufs, setterBufs = false, nil
	var snaps [][]byte
	for _, bf := range bufs {
		snaps = append(snaps, append([]byte(nil), bf...))
	}
	var firstRaw []byte
	for round := 0; round < 2; round++ {
		m2 := new(stun.Message)
		m2.TransactionID = tid
		m2.WriteHeader()
		if aerr := st.AddTo(m2); aerr != nil {
			return fmt.Errorf("use %d of the same %s value: AddTo returned %v", round+1, c.Attr, aerr)
		}
		for i, bf := range bufs {
			if !bytes.Equal(bf, snaps[i]) {
				return fmt.Errorf("adding the %s value modified the caller's value: %x became %x", c.Attr, snaps[i], bf)
			}
		}
		if round == 0 {
			firstRaw = append([]byte(nil), m2.Raw...)
		} else if !bytes.Equal(firstRaw, m2.Raw) {
			return fmt.Errorf("adding the same %s value a second time wrote different bytes: %x, first %x", c.Attr, m2.Raw[20:], firstRaw[20:])
		}
	}

	return nil
}

func genC06(rt *rapid.T) (c06Case, bool) {
	c := c06Case{TID: genTIDHex(rt)}
	c.Attr = rapid.SampledFrom([]string{"xor", "xor", "xoras", "mapped", "mappedas", "alt", "origin", "other",
		"username", "realm", "nonce", "software", "errattr", "errattr", "errcode", "unknown", "unknown"}).Draw(rt, "attr")
	nt := false
	switch c.Attr {
	case "xor", "xoras", "mapped", "mappedas", "alt", "origin", "other":
		ip := genIP(rt)
		c.IP, c.Port = toHex(ip), genPort(rt)
		if c.Attr == "xoras" || c.Attr == "mappedas" {
			c.Type = addType(rt)
		}
		switch rapid.IntRange(0, 2).Draw(rt, "prev") {
		case 1:
			c.PrevIP = toHex(rapid.SliceOfN(rapid.Byte(), 4, 4).Draw(rt, "prev4"))
		case 2:
			c.PrevIP = toHex(rapid.SliceOfN(rapid.Byte(), 16, 16).Draw(rt, "prev16"))
		}
		nt = len(ip) == 16 || c.Port >= 0x8000
	case "username":
		c.Val = genText(rt, 513)
		nt = len(c.Val)/2 >= 512
	case "realm", "nonce", "software":
		c.Val = genText(rt, 763)
		nt = len(c.Val)/2 >= 762
	case "errattr":
		c.Code = rapid.IntRange(300, 699).Draw(rt, "code")
		c.Val = genText(rt, 763)
		nt = len(c.Val) > 0
		if rapid.Bool().Draw(rt, "reservedBits") {
			c.Reserved = rapid.Uint32Range(0, 1<<21-1).Draw(rt, "reserved")
		}
	case "errcode":
		c.Code = rapid.SampledFrom(defaultReasonCodes).Draw(rt, "dcode")
		nt = true
	case "unknown":
		c.Types = rapid.SliceOfN(rapid.Uint16(), 0, 64).Draw(rt, "types")
		nt = len(c.Types) > 0
	}
	if rapid.IntRange(0, 2).Draw(rt, "withBefore") == 0 {
		n := rapid.IntRange(1, 3).Draw(rt, "nBefore")
		for i := 0; i < n; i++ {
			o := genAttrOp(rt, false, 40)
			// keep the attribute under test the first of its type
			if _, at, _, _ := o.setter(); at == c.Type || at == addrTypes[c.Attr] || at == textTypes[c.Attr] || at == 0x0009 || at == 0x000A {
				continue
			}
			c.Before = append(c.Before, o)
		}
	}

	return c, nt
}

func c06Sig(c c06Case) uint64 {
	return evid.NewH().Str(c.Attr).I(int(c.Type)).I(len(c.IP)).I(c.Port).I(len(c.Val)).I(c.Code).I(len(c.Types)).I(len(c.PrevIP)).Str(c.TID).Sum()
}

func c06Notes(rec *evid.Rec) {
	rec.Note("rule", "typed values: IPv4 / IPv6 / IPv4-mapped addresses and boundary-biased ports under random transaction ids for XOR-MAPPED-ADDRESS (AddTo and AddToAs over arbitrary types), MAPPED-ADDRESS (and AddToAs), "+
		"ALTERNATE-SERVER, RESPONSE-ORIGIN, OTHER-ADDRESS; text 0..limit bytes (513 USERNAME, 763 REALM/NONCE/SOFTWARE); ERROR-CODE 300..699 x reasons 0..763 bytes (all codes enumerated in a separate sweep); default-reason codes; "+
		"UNKNOWN-ATTRIBUTES lists of 0..64 types; optionally preceded by unrelated attributes; getter destinations fresh or holding a previous 4/16-byte IP. Oracles: (a) AddTo -> Decode -> GetFrom returns the value; "+
		"(b) value bytes == independent RFC 5389 section 15 encoder, independent decoder reads the library's bytes; (c) attributes produced by the independent encoder are read by the library getter. "+
		"Non-trivial = IPv6/IPv4-mapped address or port >= 0x8000, text at limit-1/limit, non-empty reason, non-empty list, default-reason code; distinct by (attribute, type, sizes, port, code, id).")
	rec.Note("assumptions", []string{"attribute limits are the library's documented constants (USERNAME 513, others 763) - DESIGN D5"})
}

func TestC06_Rapid(t *testing.T) {
	rec := evid.For("C06")
	c06Notes(rec)
	pbt.Check(t, rec, "typed", evid.Pick(80000, 600000), func(rt *rapid.T) (any, error) {
		c, nt := genC06(rt)
		rec.Case(c.Attr, c06Sig(c), nt, func() any { return c })
		var err error
		if perr := pbt.Safely(func() { err = runC06(c) }); perr != nil {
			err = perr
		}

		return c, err
	})
}

// TestC06_Sweeps enumerates the finite sub-domains: all error codes 300..699,
// all list lengths 0..64, all text lengths near the limits, and (thorough) all
// 65536 ports for both address families.
func TestC06_Sweeps(t *testing.T) {
	rec := evid.For("C06")
	c06Notes(rec)
	pool := poolBytes(1024)
	run := func(c c06Case, nt bool) bool {
		rec.Case("sweep:"+c.Attr, c06Sig(c), nt, nil)
		var err error
		if perr := pbt.Safely(func() { err = runC06(c) }); perr != nil {
			err = perr
		}
		if err != nil {
			pbt.Fail(t, rec, "typed", c, "%v", err)

			return false
		}

		return true
	}
	tid := toHex(pool[:12])
	for code := 300; code <= 699; code++ {
		if !run(c06Case{Attr: "errattr", Code: code, TID: tid, Val: toHex(pool[:code%37])}, true) {
			return
		}
	}
	for n := 0; n <= 64; n++ {
		types := make([]uint16, n)
		for i := range types {
			types[i] = uint16(pool[2*i])<<8 | uint16(pool[2*i+1])
		}
		if !run(c06Case{Attr: "unknown", Types: types, TID: tid}, n > 0) {
			return
		}
	}
	for _, a := range []string{"username", "realm", "nonce", "software"} {
		limit := 763
		if a == "username" {
			limit = 513
		}
		for n := limit - 8; n <= limit; n++ {
			v := make([]byte, n)
			for i := range v {
				v[i] = pool[i%len(pool)]
			}
			if !run(c06Case{Attr: a, Val: toHex(v), TID: tid}, n >= limit-1) {
				return
			}
		}
	}
	step := evid.Pick(251, 1)
	shard, nshards := evid.Shard()
	for port := shard; port <= 65535; port += step * nshards {
		for _, ip := range [][]byte{pool[20:24], append([]byte{0x20}, pool[30:45]...)} {
			for _, a := range []string{"xor", "mapped"} {
				if !run(c06Case{Attr: a, IP: toHex(ip), Port: port, TID: tid}, true) {
					return
				}
			}
		}
	}
	rec.Exhaustive("error codes 300..699; unknown-attribute list lengths 0..64; text lengths limit-8..limit", true)
	if step == 1 {
		rec.Exhaustive("ports 0..65535 x IPv4/IPv6 x XOR-MAPPED/MAPPED-ADDRESS", true)
	}
}

func TestC06_Replay(t *testing.T) { replayAll(t, "C06") }

func init() {
	replayers["C06/typed"] = func(raw json.RawMessage) error {
		var c c06Case
		if err := json.Unmarshal(raw, &c); err != nil {
			return err
		}

		return runC06(c)
	}
}

var _ = gen.Arena
