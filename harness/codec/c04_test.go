package codec

import (
	"bytes"
	"encoding/json"
	"fmt"
	"testing"

	"github.com/pion/stun/v3"
	"github.com/pion/stun/v3/verifharness/evid"
	"github.com/pion/stun/v3/verifharness/gen"
	"github.com/pion/stun/v3/verifharness/pbt"
	"github.com/pion/stun/v3/verifharness/ref"
	"pgregory.net/rapid"
)

// ---- (i) verifier iff ------------------------------------------------------

type c04Verify struct {
	Raw     hx     `json:"raw"`
	Key     hx     `json:"key"`
	Variant string `json:"variant,omitempty"`
	Extra   int    `json:"extra_cap"`
}

// snapshot of the visible message state.
type msgSnap struct {
	raw    []byte
	length uint32
	attrs  []flatAttr
	n, c   int
}

func snapMsg(m *stun.Message) msgSnap {
	s := msgSnap{raw: append([]byte(nil), m.Raw...), length: m.Length, n: len(m.Attributes), c: cap(m.Attributes)}
	for _, a := range m.Attributes {
		s.attrs = append(s.attrs, flatAttr{uint16(a.Type), int(a.Length), append([]byte(nil), a.Value...)})
	}

	return s
}

func (s msgSnap) diff(m *stun.Message) error {
	if !bytes.Equal(s.raw, m.Raw) {
		return fmt.Errorf("visible raw bytes changed (len %d -> %d)", len(s.raw), len(m.Raw))
	}
	if s.length != m.Length {
		return fmt.Errorf("Length changed %d -> %d", s.length, m.Length)
	}
	if s.n != len(m.Attributes) {
		return fmt.Errorf("attribute count changed %d -> %d", s.n, len(m.Attributes))
	}
	for i, a := range m.Attributes {
		x := s.attrs[i]
		if uint16(a.Type) != x.Type || int(a.Length) != x.Len || !bytes.Equal(a.Value, x.Value) {
			return fmt.Errorf("attribute %d changed", i)
		}
	}

	return nil
}

func runC04Verify(c c04Verify) error {
	raw, key := unHex(c.Raw), unHex(c.Key)
	m := new(stun.Message)
	m.Raw = gen.Arena(raw, c.Extra, 0xA5)
	if err := m.Decode(); err != nil {
		return fmt.Errorf("harness: generated message does not decode: %w", err)
	}
	want := ref.MIVerdict(raw, key)
	before := snapMsg(m)
	var err error
	var perr error
	guarded("C04", "verify", c, func() { perr = pbt.Safely(func() { err = stun.MessageIntegrity(key).Check(m) }) })
	if perr != nil {
		return perr
	}
	if (err == nil) != want {
		return fmt.Errorf("Check returned %v but RFC 5389 15.4 verdict is %v (variant %s, key %d bytes)", err, want, c.Variant, len(key))
	}
	if derr := before.diff(m); derr != nil {
		return fmt.Errorf("Check (result %v) modified the message: %w", err, derr)
	}

	return nil
}

// genC04Verify builds a decodable message holding MESSAGE-INTEGRITY
// attributes at arbitrary positions whose first MAC is a chosen variant.
func genC04Verify(rt *rapid.T) (c04Verify, bool) {
	key := genKey(rt)
	noMI := func(as []ref.EAttr) []ref.EAttr {
		for i := range as {
			if as[i].Type == 0x0008 {
				as[i].Type = 0x0006
			}
		}

		return as
	}
	before := noMI(gen.TLVs(rt, 8, 1200, "before"))
	miLen := rapid.SampledFrom([]int{20, 20, 20, 20, 20, 20, 0, 1, 19, 21, 24, 4, 40}).Draw(rt, "miLen")
	after := gen.TLVs(rt, 4, 600, "after") // may contain further MESSAGE-INTEGRITY attributes
	hasMI := rapid.IntRange(0, 11).Draw(rt, "hasMI") != 0
	w := gen.Wire{TID: gen.TID().Draw(rt, "tid"), TypeRaw: rapid.Uint16().Draw(rt, "typeRaw")}
	w.Attrs = append(w.Attrs, before...)
	if hasMI {
		w.Attrs = append(w.Attrs, ref.EAttr{Type: 0x0008, Value: make([]byte, miLen)})
	}
	w.Attrs = append(w.Attrs, after...)
	if rapid.Bool().Draw(rt, "dirtyPad") {
		w.Pad = rapid.SliceOfN(rapid.Byte(), 0, 12).Draw(rt, "pad")
	}
	if rapid.IntRange(0, 3).Draw(rt, "trail") == 0 {
		w.Trailing = rapid.SliceOfN(rapid.Byte(), 1, 24).Draw(rt, "trailing")
	}
	raw := w.Bytes()
	variant := "none"
	nearMiss := false
	if hasMI {
		r, _ := ref.Parse(raw)
		a, _ := r.First(0x0008)
		good := ref.HMACSHA1(key, ref.MICovered(raw, a.Off))
		variant = rapid.SampledFrom([]string{"correct", "correct", "correct", "wrongkey", "wrongkey-nul", "bitflip", "random", "zero"}).Draw(rt, "variant")
		val := make([]byte, miLen)
		switch variant {
		case "correct":
			copy(val, good)
			for i := 20; i < miLen; i++ {
				val[i] = byte(i)
			}
			nearMiss = miLen != 20
		case "wrongkey":
			other := append([]byte{0x01}, key...)
			copy(val, ref.HMACSHA1(other, ref.MICovered(raw, a.Off)))
			nearMiss = true
		case "wrongkey-nul":
			// K and K||0x00 are the same HMAC key when shorter than the block:
			// the verdict must then be "verifies" - the oracle decides.
			other := append(append([]byte(nil), key...), 0x00)
			copy(val, ref.HMACSHA1(other, ref.MICovered(raw, a.Off)))
			nearMiss = true
		case "bitflip":
			copy(val, good)
			if miLen > 0 {
				p := rapid.IntRange(0, min(miLen, 20)*8-1).Draw(rt, "flipBit")
				val[p/8] ^= 1 << (p % 8)
			}
			nearMiss = true
		case "random":
			copy(val, gen.Bytes(rt, miLen, "mac"))
		}
		copy(raw[20+a.Off:], val)
	}
	c := c04Verify{Raw: toHex(raw), Key: toHex(key), Variant: variant}
	c.Extra = rapid.SampledFrom([]int{0, 0, 1, 19, 20, 21, 64}).Draw(rt, "extraCap")
	// non-trivial: attribute with len%4 != 0 after the first MI, or near-miss MAC, or key > 64
	nt := nearMiss || len(key) > 64
	if hasMI {
		for _, a := range after {
			if len(a.Value)%4 != 0 {
				nt = true
			}
		}
	}

	return c, nt
}

// ---- (ii)+(iii) sign, verify, tamper ----------------------------------------

type c04Sign struct {
	Start    *bop  `json:"start,omitempty"` // nil: built from scratch; else decoded first (possibly with trailing bytes)
	Before   []bop `json:"before"`
	Sign     bop   `json:"sign"`
	After    []bop `json:"after"`
	OtherKey hx    `json:"other_key"`
	Bit      int   `json:"bit"` // -1: all single-bit flips; >= 0: only this one
}

func buildSigned(c c04Sign) (*builder, error) {
	b, err := startThenApply(c.Start, c.Before)
	if err != nil {
		return nil, err
	}
	if err := b.apply(c.Sign); err != nil {
		return nil, err
	}
	for _, o := range c.After {
		if err := b.apply(o); err != nil {
			return nil, err
		}
	}

	return b, nil
}

func runC04Sign(c c04Sign, rec *evid.Rec) (bitFailed int, err error) {
	bitFailed = -1
	var b *builder
	if perr := pbt.Safely(func() { b, err = buildSigned(c) }); perr != nil {
		return -1, perr
	}
	if err != nil {
		return -1, err
	}
	m, key := b.m, c.Sign.key()
	raw := append([]byte(nil), m.Raw...)
	r, ok := ref.Parse(raw)
	if !ok {
		return -1, fmt.Errorf("signed message is not well-formed")
	}
	mi, ok := r.First(0x0008)
	if !ok {
		return -1, fmt.Errorf("integrity setter added no MESSAGE-INTEGRITY")
	}
	// the attribute appended by AddTo
	if mi.Len != 20 || !bytes.Equal(mi.Value, ref.HMACSHA1(key, ref.MICovered(raw, mi.Off))) {
		return -1, fmt.Errorf("AddTo wrote MAC %x, RFC 5389 15.4 gives %x (key %d bytes, %d bytes covered)", mi.Value, ref.HMACSHA1(key, ref.MICovered(raw, mi.Off)), len(key), 20+mi.Off-4)
	}
	check := func(mm *stun.Message, k []byte) (cerr error, perr error) {
		guarded("C04", "sign", c, func() { perr = pbt.Safely(func() { cerr = stun.MessageIntegrity(k).Check(mm) }) })

		return cerr, perr
	}
	// verifies under its own key, directly and after re-decoding
	if cerr, perr := check(m, key); perr != nil || cerr != nil {
		return -1, fmt.Errorf("signed message does not verify under its own key: %v %v", cerr, perr)
	}
	d := new(stun.Message)
	if derr := stun.Decode(raw, d); derr != nil {
		return -1, fmt.Errorf("signed message does not decode: %w", derr)
	}
	if cerr, perr := check(d, key); perr != nil || cerr != nil {
		return -1, fmt.Errorf("re-decoded signed message does not verify under its own key: %v %v", cerr, perr)
	}
	if cerr := d.Check(stun.MessageIntegrity(key)); cerr != nil {
		return -1, fmt.Errorf("Message.Check(integrity) fails on a signed message: %v", cerr)
	}
	// other key: iff reference verdict
	other := unHex(c.OtherKey)
	cerr, perr := check(d, other)
	if perr != nil {
		return -1, perr
	}
	if (cerr == nil) != ref.MIVerdict(raw, other) {
		return -1, fmt.Errorf("under another key Check=%v, reference verdict %v", cerr, ref.MIVerdict(raw, other))
	}
	if c.Sign.Kind == "milong" && !bytes.Equal(stun.NewLongTermIntegrity(c.Sign.User, c.Sign.Realm, c.Sign.Pass), ref.LongTermKey(c.Sign.User, c.Sign.Realm, c.Sign.Pass)) {
		return -1, fmt.Errorf("long-term key is not MD5(user:realm:password)")
	}
	// (iii) tamper: single-bit flips
	if len(raw) > 260 && c.Bit < 0 {
		return -1, nil
	}
	miStart := 20 + mi.Off - 4
	loc := evid.NewLocal()
	defer func() {
		if rec != nil {
			rec.Merge(loc)
		}
	}()
	t := new(stun.Message)
	for bit := 0; bit < len(raw)*8; bit++ {
		if c.Bit >= 0 && bit != c.Bit {
			continue
		}
		mut := append([]byte(nil), raw...)
		mut[bit/8] ^= 1 << (bit % 8)
		derr := stun.Decode(mut, t)
		decodable := derr == nil
		loc.Case("flip", evid.NewH().Bytes(raw[:8]).I(len(raw)).I(bit).Sum(), decodable)
		_, refOK := ref.Parse(mut)
		if decodable != refOK {
			return bit, fmt.Errorf("flip of bit %d: Decode says %v, reference parse says %v", bit, derr, refOK)
		}
		if !decodable {
			continue
		}
		cerr, perr := check(t, key)
		if perr != nil {
			return bit, fmt.Errorf("flip of bit %d: %w", bit, perr)
		}
		want := ref.MIVerdict(mut, key)
		if (cerr == nil) != want {
			return bit, fmt.Errorf("flip of bit %d (byte %d): Check=%v, reference verdict %v", bit, bit/8, cerr, want)
		}
		pos := bit / 8
		covered := (pos < miStart && pos != 2 && pos != 3) || (pos >= miStart+4 && pos < miStart+24)
		if covered && cerr == nil {
			return bit, fmt.Errorf("flip of covered bit %d (byte %d, MAC attribute at %d) still verifies", bit, pos, miStart)
		}
	}

	return -1, nil
}

func genC04Sign(rt *rapid.T) c04Sign {
	c := c04Sign{Bit: -1}
	n := rapid.IntRange(0, 8).Draw(rt, "nBefore")
	for i := 0; i < n; i++ {
		if rapid.IntRange(0, 5).Draw(rt, "hdr") == 0 {
			c.Before = append(c.Before, genHeaderOp(rt))
		} else {
			c.Before = append(c.Before, sanitizeSeal(genAttrOp(rt, false, 60), true))
		}
	}
	c.Start = genDecodedStart(rt)
	c.Sign = bop{Kind: rapid.SampledFrom([]string{"mi", "mi", "mishort", "milong"}).Draw(rt, "signKind")}
	switch c.Sign.Kind {
	case "mi":
		c.Sign.Key = toHex(genKey(rt))
	case "mishort":
		c.Sign.Pass = rapid.StringN(0, 40, 90).Draw(rt, "pass")
	default:
		c.Sign.User, c.Sign.Realm, c.Sign.Pass = rapid.StringN(0, 10, 20).Draw(rt, "user"), rapid.StringN(0, 10, 20).Draw(rt, "realm"), rapid.StringN(0, 10, 20).Draw(rt, "pass")
	}
	na := rapid.IntRange(0, 4).Draw(rt, "nAfter")
	for i := 0; i < na; i++ {
		o := genAttrOp(rt, false, 24)
		c.After = append(c.After, o)
	}
	if rapid.Bool().Draw(rt, "fp") {
		c.After = append(c.After, bop{Kind: "fp"})
	}
	k := c.Sign.key()
	switch rapid.IntRange(0, 3).Draw(rt, "otherKind") {
	case 0:
		c.OtherKey = toHex(append(append([]byte(nil), k...), 0))
	case 1:
		if len(k) > 0 {
			o := append([]byte(nil), k...)
			o[len(o)-1] ^= 1
			c.OtherKey = toHex(o)
		}
	default:
		c.OtherKey = toHex(genKey(rt))
	}

	return c
}

func c04Notes(rec *evid.Rec) {
	rec.Note("rule", "(i) verifier: decodable messages (random TLVs, dirty padding, trailing bytes, spare capacity 0..64) with 0..8 attributes before and 0..4 after a MESSAGE-INTEGRITY attribute of length "+
		"{20,0,1,19,21,24,4,40} whose value is the reference HMAC under the key / under another key / under key||0x00 / with one bit flipped / random / zero, possibly further MI attributes later; "+
		"keys 0..200 bytes incl. 63/64/65: Check==nil iff ref.MIVerdict, and Check leaves Raw/Length/Attributes unchanged. (ii) messages built with the library and signed with raw, short-term and long-term keys, "+
		"0..4 attributes and optional FINGERPRINT appended: MAC bytes == reference, verifies (directly and re-decoded), other keys iff reference. (iii) every single-bit flip of each signed message <= 260 bytes: "+
		"Decode verdict == reference parse, Check verdict == reference, covered bytes and the MAC always detected. Non-trivial (i): near-miss MAC, key > 64 bytes or an attribute with len%4!=0 after the MAC; "+
		"(iii): flips after which the message still decodes. Distinct by case content.")
	rec.Note("assumptions", []string{
		"harness/ref.HMACSHA1 implements RFC 2104 (cross-checked against crypto/hmac at start-up)",
		"sign-then-verify is asserted for exact-length messages without an earlier MESSAGE-INTEGRITY/FINGERPRINT (DESIGN D2); header-length flips are judged by the iff oracle only (D3)",
	})
}

func TestC04_Verify(t *testing.T) {
	rec := evid.For("C04")
	c04Notes(rec)
	pbt.Check(t, rec, "verify", evid.Pick(40000, 300000), func(rt *rapid.T) (any, error) {
		c, nt := genC04Verify(rt)
		rec.Case("verify:"+c.Variant, evid.NewH().Str(c.Raw).Str(c.Key).Sum(), nt, func() any { return c })

		return c, runC04Verify(c)
	})
}

func TestC04_SignTamper(t *testing.T) {
	rec := evid.For("C04")
	c04Notes(rec)
	pbt.Check(t, rec, "sign", evid.Pick(400, 8000), func(rt *rapid.T) (any, error) {
		c := genC04Sign(rt)
		rec.Case("sign:"+c.Sign.Kind, evid.NewH().Str(fmt.Sprint(c)).Sum(), len(c.After) > 0 || len(c.Sign.key()) > 64, func() any { return c })
		bit, err := runC04Sign(c, rec)
		if err != nil && bit >= 0 {
			c.Bit = bit
		}

		return c, err
	})
}

// ---- (iv) signing is refused once FINGERPRINT is present ---------------------

type c04Refuse struct {
	Attrs []bop `json:"attrs"` // message content; contains a FINGERPRINT at some position
	Sign  bop   `json:"sign"`
}

func runC04Refuse(c c04Refuse) error {
	b, err := startBuilder(bop{Kind: "start-build", Sub: c.Attrs})
	if err != nil {
		return err
	}
	m := b.m
	fpAt := -1
	for i, a := range m.Attributes {
		if a.Type == stun.AttrFingerprint {
			fpAt = i
		}
	}
	if fpAt < 0 {
		return fmt.Errorf("harness: no FINGERPRINT in the generated message")
	}
	s, _, _, _ := c.Sign.setter()
	before := snapMsg(m)
	var aerr, perr error
	guarded("C04", "refuse", c, func() { perr = pbt.Safely(func() { aerr = s.AddTo(m) }) })
	if perr != nil {
		return perr
	}
	if aerr != stun.ErrFingerprintBeforeIntegrity { //nolint:errorlint
		return fmt.Errorf("signing a message whose attribute %d of %d is FINGERPRINT returned %v, want ErrFingerprintBeforeIntegrity", fpAt, len(before.attrs), aerr)
	}
	if derr := before.diff(m); derr != nil {
		return fmt.Errorf("refused signing modified the message: %w", derr)
	}

	return nil
}

func TestC04_Refuse(t *testing.T) {
	rec := evid.For("C04")
	c04Notes(rec)
	pbt.Check(t, rec, "refuse", evid.Pick(3000, 60000), func(rt *rapid.T) (any, error) {
		var c c04Refuse
		nb := rapid.IntRange(0, 4).Draw(rt, "nBefore")
		for i := 0; i < nb; i++ {
			c.Attrs = append(c.Attrs, sanitizeSeal(genAttrOp(rt, false, 40), false))
		}
		if rapid.IntRange(0, 3).Draw(rt, "rawFP") == 0 {
			c.Attrs = append(c.Attrs, bop{Kind: "raw", Type: 0x8028, Val: toHex(gen.Bytes(rt, rapid.IntRange(0, 8).Draw(rt, "fpLen"), "fpVal"))})
		} else {
			c.Attrs = append(c.Attrs, bop{Kind: "fp"})
		}
		na := rapid.IntRange(0, 3).Draw(rt, "nAfter")
		for i := 0; i < na; i++ {
			c.Attrs = append(c.Attrs, sanitizeSeal(genAttrOp(rt, false, 40), false))
		}
		c.Sign = bop{Kind: rapid.SampledFrom([]string{"mi", "mishort", "milong"}).Draw(rt, "signKind"), Key: toHex(genKey(rt)), Pass: "pw", User: "u", Realm: "r"}
		rec.Case("refuse", evid.NewH().Str(fmt.Sprint(c)).Sum(), na > 0, func() any { return c })

		return c, runC04Refuse(c)
	})
}

func TestC04_Replay(t *testing.T) { replayAll(t, "C04") }

func init() {
	replayers["C04/verify"] = func(raw json.RawMessage) error {
		var c c04Verify
		if err := json.Unmarshal(raw, &c); err != nil {
			return err
		}

		return runC04Verify(c)
	}
	replayers["C04/refuse"] = func(raw json.RawMessage) error {
		var c c04Refuse
		if err := json.Unmarshal(raw, &c); err != nil {
			return err
		}

		return runC04Refuse(c)
	}
	replayers["C04/sign"] = func(raw json.RawMessage) error {
		var c c04Sign
		if err := json.Unmarshal(raw, &c); err != nil {
			return err
		}
		_, err := runC04Sign(c, nil)

		return err
	}
}
