package codec

import (
	"encoding/json"
	"fmt"
	"testing"

	"github.com/pion/stun/v3/verifharness/evid"
	"github.com/pion/stun/v3/verifharness/pbt"
	"pgregory.net/rapid"
)

// c03Case is a start state followed by building operations.
type c03Case struct {
	Start bop   `json:"start"`
	Ops   []bop `json:"ops"`
}

// runC03 replays the trace, checking the invariant after every step.
func runC03(c c03Case) (b *builder, err error) {
	perr := pbt.Safely(func() {
		b, err = startBuilder(c.Start)
		if err != nil {
			return
		}
		if err = b.invariant(); err != nil {
			err = fmt.Errorf("after start %s: %w", c.Start.Kind, err)

			return
		}
		for i, o := range c.Ops {
			if err = b.apply(o); err != nil {
				err = fmt.Errorf("step %d (%s): %w", i, o.Kind, err)

				return
			}
			if err = b.invariant(); err != nil {
				err = fmt.Errorf("after step %d (%s): %w", i, o.Kind, err)

				return
			}
		}
	})
	if perr != nil {
		return b, perr
	}

	return b, err
}

func c03Sig(c c03Case) uint64 {
	h := evid.NewH().Str(c.Start.Kind).I(len(c.Start.Sub))
	for _, o := range c.Ops {
		h.Str(o.Kind).I(len(o.Val) / 2 % 4).I(len(o.Sub))
	}

	return h.Sum()
}

func TestC03_Rapid(t *testing.T) {
	rec := evid.For("C03")
	rec.Note("rule", "rapid-generated traces: a start state (Build with random setters / New+WriteHeader / WriteHeader or Encode on a zero Message / Decode of a canonical message / "+
		"Decode of a non-canonical message followed by a forced Encode) then 1..40 operations from {Add, RawAttribute, XOR/Mapped/Alternate/ResponseOrigin/Other address incl. AddToAs with arbitrary types, "+
		"Username/Realm/Nonce/Software, ErrorCodeAttribute, ErrorCode, UnknownAttributes, MessageIntegrity (raw/short-term/long-term keys), Fingerprint, SetType, MessageType.AddTo, "+
		"transaction-id setters, NewTransactionID, Message.AddTo, WriteHeader/WriteLength/WriteType/WriteTransactionID, Encode, Build(subset)}; values 0..65000 bytes, every residue mod 4; "+
		"operations that would exceed the 16-bit length are skipped. Oracle after every step: independent RFC 5389 parse succeeds, exact length, multiple of 4, zero padding, "+
		"wire == struct == model (type, id, ordered attributes), Decode(m.Raw) agrees and Equal both ways, decode-then-encode == canonical reference encoding == m.Raw. "+
		"Non-trivial = >= 2 length-changing operations of which one adds a value with len%4 != 0, or an integrity/fingerprint setter followed by another operation; distinct by (start kind, op kinds, value residues).")
	rec.Note("assumptions", []string{
		"attribute type 0x8020 is not passed to Add/AddToAs (decode-side legacy alias, DESIGN D1)",
		"values written by typed setters are taken from the wire here; their RFC conformance is C06's oracle",
	})
	pbt.Check(t, rec, "trace", evid.Pick(15000, 80000), func(rt *rapid.T) (any, error) {
		c := c03Case{Start: genStart(rt)}
		c.Ops = rapid.SliceOfN(rapid.Custom(genStep), 1, 40).Draw(rt, "ops")
		b, err := runC03(c)
		nt := b != nil && ((b.lenOps >= 2 && b.oddLen) || b.sealed > 0)
		rec.Case(c.Start.Kind, c03Sig(c), nt, func() any { return c })
		if b != nil {
			rec.Count("steps", int64(len(c.Ops)))
			rec.Count("steps_skipped_over_16bit", int64(b.skipped))
		}

		return c, err
	})
}

func TestC03_Replay(t *testing.T) { replayAll(t, "C03") }

func init() {
	replayers["C03/trace"] = func(raw json.RawMessage) error {
		var c c03Case
		if err := json.Unmarshal(raw, &c); err != nil {
			return err
		}
		_, err := runC03(c)

		return err
	}
}
