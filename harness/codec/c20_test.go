package codec

import (
	"encoding/json"
	"fmt"
	"net"
	"os"
	"testing"

	"github.com/pion/stun/v3"
	"github.com/pion/stun/v3/verifharness/evid"
	"github.com/pion/stun/v3/verifharness/pbt"
	"pgregory.net/rapid"
)

type c20Case struct {
	Attrs []bop  `json:"attrs"`
	Sign  *bop   `json:"sign,omitempty"`
	FP    bool   `json:"fp"`
	Warm  string `json:"warm,omitempty"` // "larger" (default): the Message was used for a message 64 bytes larger; "same": only for this very message
	Op    string `json:"op,omitempty"`   // failing operation (informational)
}

// ptrSetter returns a pointer setter for an op, so that passing it through the
// Setter interface does not allocate.
func ptrSetter(o bop) stun.Setter {
	ip := net.IP(unHex(o.IP))
	val := unHex(o.Val)
	switch o.Kind {
	case "raw":
		return &stun.RawAttribute{Type: stun.AttrType(o.Type), Value: val}
	case "xor":
		return &stun.XORMappedAddress{IP: ip, Port: o.Port}
	case "xoras":
		return &xorAs{stun.XORMappedAddress{IP: ip, Port: o.Port}, stun.AttrType(o.Type)}
	case "mapped":
		return &stun.MappedAddress{IP: ip, Port: o.Port}
	case "mappedas":
		return &mappedAs{stun.MappedAddress{IP: ip, Port: o.Port}, stun.AttrType(o.Type)}
	case "alt":
		return &stun.AlternateServer{IP: ip, Port: o.Port}
	case "origin":
		return &stun.ResponseOrigin{IP: ip, Port: o.Port}
	case "other":
		return &stun.OtherAddress{IP: ip, Port: o.Port}
	case "username":
		u := stun.Username(val)

		return &u
	case "realm":
		u := stun.Realm(val)

		return &u
	case "nonce":
		u := stun.Nonce(val)

		return &u
	case "software":
		u := stun.Software(val)

		return &u
	case "errattr":
		return &stun.ErrorCodeAttribute{Code: stun.ErrorCode(o.Code), Reason: val}
	case "errcode":
		c := stun.ErrorCode(o.Code)

		return &c
	case "unknown":
		ua := make(stun.UnknownAttributes, len(o.Types))
		for i, t := range o.Types {
			ua[i] = stun.AttrType(t)
		}

		return &ua
	case "mi", "mishort", "milong":
		k := stun.MessageIntegrity(o.key())

		return &k
	case "fp":
		return &stun.Fingerprint
	case "typeaddto":
		t := stun.NewType(stun.Method(o.Method), stun.MessageClass(o.Class))

		return &t
	case "tidset":
		var id [12]byte
		copy(id[:], unHex(o.TID))

		return stun.NewTransactionIDSetter(id)
	}

	return nil
}

func runC20(c c20Case) (c20Case, error) {
	var ops []bop
	ops = append(ops, bop{Kind: "typeaddto", Method: 1, Class: 2}, bop{Kind: "tidset", TID: "0102030405060708090a0b0c"})
	ops = append(ops, c.Attrs...)
	if c.Sign != nil {
		ops = append(ops, *c.Sign)
	}
	if c.FP {
		ops = append(ops, bop{Kind: "fp"})
	}
	setters := make([]stun.Setter, 0, len(ops)+1)
	for _, o := range ops {
		s := ptrSetter(o)
		if s == nil {
			return c, fmt.Errorf("harness: no pointer setter for %q", o.Kind)
		}
		setters = append(setters, s)
	}
	// warm-up: a strictly larger message of the same shape (one more 64-byte attribute)
	big := append(append([]stun.Setter(nil), setters...), &stun.RawAttribute{Type: 0x7F10, Value: make([]byte, 64)})
	if c.FP || c.Sign != nil {
		// keep integrity/fingerprint last in the warm-up message too
		big = append(append([]stun.Setter(nil), &stun.RawAttribute{Type: 0x7F10, Value: make([]byte, 64)}), setters...)
	}
	if c.Warm == "same" {
		// "used for a message at least as large" includes: used for this very message and nothing larger
		big = setters
	}
	m := new(stun.Message)
	if err := m.Build(big...); err != nil {
		return c, fmt.Errorf("harness: warm-up build failed: %w", err)
	}
	warm := new(stun.Message) // decode target, warmed with the larger message
	if err := stun.Decode(m.Raw, warm); err != nil {
		return c, err
	}
	inplace := new(stun.Message)
	inplace.Raw = append(inplace.Raw, m.Raw...)
	_ = inplace.Decode()
	clone := new(stun.Message)
	_ = m.CloneTo(clone)
	if err := m.Build(setters...); err != nil {
		return c, fmt.Errorf("harness: build failed: %w", err)
	}
	data := append([]byte(nil), m.Raw...)
	src := &stun.Message{Raw: append([]byte(nil), data...)}
	if err := src.Decode(); err != nil {
		return c, err
	}

	var failure error
	measure := func(name string, f func() error) bool {
		var ferr error
		run := func() {
			if err := f(); err != nil {
				ferr = err
			}
		}
		n := testing.AllocsPerRun(5, run)
		// AllocsPerRun counts process-wide mallocs: re-measure before blaming the operation (a real
		// allocation on the path shows up in every measurement, a background one does not).
		for rep := 0; rep < 4 && n != 0 && ferr == nil; rep++ {
			if n2 := testing.AllocsPerRun(5, run); n2 < n {
				n = n2
			}
		}
		if ferr != nil {
			failure = fmt.Errorf("harness: operation %s failed: %w", name, ferr)
			c.Op = name

			return false
		}
		if n != 0 {
			failure = fmt.Errorf("%s performs %v heap allocations per run on a warm %d-byte message with %d attributes", name, n, len(data), len(src.Attributes))
			c.Op = name

			return false
		}

		return true
	}
	if !measure("Build(pointer setters)", func() error { return m.Build(setters...) }) {
		return c, failure
	}
	if !measure("Decode(data,m)", func() error { return stun.Decode(data, warm) }) {
		return c, failure
	}
	if !measure("Write", func() error { _, err := warm.Write(data); return err }) {
		return c, failure
	}
	if !measure("Message.Decode", func() error { inplace.Raw = append(inplace.Raw[:0], data...); return inplace.Decode() }) {
		return c, failure
	}
	if !measure("CloneTo", func() error { return src.CloneTo(clone) }) {
		return c, failure
	}
	// lookups
	visit := func(*stun.Message) error { return nil }
	var sink int
	for _, a := range src.Attributes {
		t := a.Type
		if !measure("Get/Contains/ForEach", func() error {
			v, err := warm.Get(t)
			sink += len(v)
			if !warm.Contains(t) {
				return fmt.Errorf("Contains false")
			}
			if _, ok := warm.Attributes.Get(t); !ok {
				return fmt.Errorf("Attributes.Get false")
			}
			if ferr := warm.ForEach(t, visit); ferr != nil {
				return ferr
			}

			return err
		}) {
			return c, failure
		}
	}
	// typed getters into warm destinations, for attributes present (first of type decides success)
	var (
		xa  stun.XORMappedAddress
		ma  stun.MappedAddress
		as  stun.AlternateServer
		ro  stun.ResponseOrigin
		oa  stun.OtherAddress
		un  stun.Username
		re  stun.Realm
		no  stun.Nonce
		so  stun.Software
		ec  stun.ErrorCodeAttribute
		ua  stun.UnknownAttributes
		all = []struct {
			t stun.AttrType
			g stun.Getter
		}{
			{stun.AttrXORMappedAddress, &xa}, {stun.AttrMappedAddress, &ma}, {stun.AttrAlternateServer, &as}, {stun.AttrResponseOrigin, &ro},
			{stun.AttrOtherAddress, &oa}, {stun.AttrUsername, &un}, {stun.AttrRealm, &re}, {stun.AttrNonce, &no}, {stun.AttrSoftware, &so},
			{stun.AttrErrorCode, &ec}, {stun.AttrUnknownAttributes, &ua},
		}
	)
	for _, tg := range all {
		if !warm.Contains(tg.t) {
			continue
		}
		if err := tg.g.GetFrom(warm); err != nil {
			continue // first attribute of that type is not a valid encoding (e.g. raw bytes): error paths may allocate
		}
		g := tg.g
		if !measure(fmt.Sprintf("%T.GetFrom", tg.g), func() error { return g.GetFrom(warm) }) {
			return c, failure
		}
	}
	if c.Sign != nil {
		key := stun.MessageIntegrity(c.Sign.key())
		if !measure("MessageIntegrity.Check", func() error { return key.Check(warm) }) {
			return c, failure
		}
	}
	if c.FP {
		if !measure("Fingerprint.Check", func() error { return stun.Fingerprint.Check(warm) }) {
			return c, failure
		}
	}
	// the verdict is part of the "values" the statement quantifies over: a check that REJECTS (wrong
	// key, corrupted fingerprint) is the same hot path on a server and must not allocate either
	// (release build: the errors are sentinels; the debug build's detailed error values are exempt - C20
	// runs without the tag)
	if c.Sign != nil {
		wrong := stun.MessageIntegrity(append(append([]byte(nil), c.Sign.key()...), 'x'))
		if !measure("MessageIntegrity.Check (wrong key: mismatch)", func() error {
			if err := wrong.Check(warm); err == nil {
				return fmt.Errorf("wrong key accepted")
			}

			return nil
		}) {
			return c, failure
		}
	}
	if c.FP && len(data) >= 28 {
		bad := new(stun.Message)
		corrupted := append([]byte(nil), data...)
		corrupted[len(corrupted)-1] ^= 0x01 // last byte of the FINGERPRINT value
		if err := stun.Decode(corrupted, bad); err == nil && stun.Fingerprint.Check(bad) != nil {
			if !measure("Fingerprint.Check (corrupted value: mismatch)", func() error {
				if err := stun.Fingerprint.Check(bad); err == nil {
					return fmt.Errorf("corrupted fingerprint accepted")
				}

				return nil
			}) {
				return c, failure
			}
		}
	}
	_ = sink

	return c, nil
}

func genC20(rt *rapid.T) (c20Case, bool) {
	var c c20Case
	n := rapid.IntRange(0, 16).Draw(rt, "nAttrs")
	v6 := false
	for i := 0; i < n; i++ {
		o := sanitizeSeal(genAttrOp(rt, false, rapid.SampledFrom([]int{8, 64, 800}).Draw(rt, "maxVal")), true)
		if o.Kind == "unknown" && len(o.Types) > 20 {
			o.Types = o.Types[:20] // documented exception: > 20 types allocates
		}
		if len(o.IP) == 32 {
			v6 = true
		}
		c.Attrs = append(c.Attrs, o)
	}
	if rapid.IntRange(0, 2).Draw(rt, "sign") > 0 {
		s := bop{Kind: "mi", Key: toHex(genKey(rt))}
		c.Sign = &s
	}
	c.FP = rapid.Bool().Draw(rt, "fp")
	c.Warm = rapid.SampledFrom([]string{"larger", "same"}).Draw(rt, "warm")
	nt := len(c.Attrs) >= 3 && (v6 || c.Sign != nil)
	if c.Sign != nil && len(c.Sign.key()) > 64 {
		nt = true
	}

	return c, nt
}

func TestC20_Allocs(t *testing.T) {
	if os.Getenv("VERIF_RACE") != "" {
		t.Skip("allocation counts are not meaningful under the race detector")
	}
	rec := evid.For("C20")
	rec.Note("rule", "generated well-formed messages: 0..16 attributes drawn from every supported setter (all address types incl. AddToAs, text up to the limits, ERROR-CODE, default-reason codes, UNKNOWN-ATTRIBUTES <= 20 types, raw) "+
		"optionally followed by MESSAGE-INTEGRITY (keys 0..200 bytes incl. 63/64/65) and FINGERPRINT. The Message is first used either for a strictly larger message of the same shape (+64 bytes) or for this very message only (\"at least as large\": no spare capacity beyond what the allocator rounds up to). Oracle: testing.AllocsPerRun(5, op) == 0 for "+
		"Build(pointer setters), Decode(data,m), Write, Message.Decode, CloneTo, Get/Contains/Attributes.Get/ForEach for every attribute type present, every typed getter whose attribute is present and valid (into a reused destination), "+
		"MessageIntegrity.Check and Fingerprint.Check; plus destination reuse: an address getter (all seven forms) or the UNKNOWN-ATTRIBUTES getter whose destination has once held the larger form (IPv6 / longer list) "+
		"must serve any generated alternation of smaller and larger values with zero allocations. One goroutine, non-race build. Non-trivial = >= 3 attributes including an IPv6 address or an integrity attribute, or key > 64 bytes; distinct by (setter kinds, size classes, key class).")
	rec.Note("assumptions", []string{"'warm' = previously used for a larger message so that spare capacity exists (DESIGN D6)",
		"UnknownAttributes.AddTo with more than 20 types is a documented allocation and is not generated", "operations must succeed: error paths may allocate"})
	pbt.Check(t, rec, "allocs", evid.Pick(1500, 40000), func(rt *rapid.T) (any, error) {
		c, nt := genC20(rt)
		h := evid.NewH()
		for _, o := range c.Attrs {
			h.Str(o.Kind).I(len(o.Val) / 64).I(len(o.IP))
		}
		if c.Sign != nil {
			h.I(len(c.Sign.key()) / 32)
		}
		rec.Case("message", h.I(len(c.Attrs)).Sum(), nt, func() any { return c })
		var fc c20Case
		var err error
		if perr := pbt.Safely(func() { fc, err = runC20(c) }); perr != nil {
			return c, perr
		}

		return fc, err
	})
}

func TestC20_Replay(t *testing.T) { replayAll(t, "C20") }

func init() {
	replayers["C20/allocs"] = func(raw json.RawMessage) error {
		var c c20Case
		if err := json.Unmarshal(raw, &c); err != nil {
			return err
		}
		_, err := runC20(c)

		return err
	}
}

// ---- destination reuse across messages: "once the destination values have been used for a
// message at least as large" - a destination that has held the larger form (IPv6, the longer
// list) must serve any alternation of smaller and larger values without allocating.

type c20Reuse struct {
	Getter string   `json:"getter"`
	Type   uint16   `json:"type,omitempty"`
	IP4    hx       `json:"ip4,omitempty"`
	IP6    hx       `json:"ip6,omitempty"`
	Port   int      `json:"port,omitempty"`
	Short  []uint16 `json:"short,omitempty"`
	Long   []uint16 `json:"long,omitempty"`
	Order  []int    `json:"order"` // sequence of 0 (small) / 1 (large) reads measured as one operation
}

func runC20Reuse(c c20Reuse) error {
	build := func(o bop) (*stun.Message, error) {
		b, err := startBuilder(bop{Kind: "start-build", Sub: []bop{{Kind: "tidset", TID: "0102030405060708090a0b0c"}, o}})
		if err != nil {
			return nil, err
		}
		m := new(stun.Message)

		return m, stun.Decode(b.m.Raw, m)
	}
	var small, large *stun.Message
	var err error
	var get func(m *stun.Message) error
	switch c.Getter {
	case "unknown":
		if small, err = build(bop{Kind: "unknown", Types: c.Short}); err != nil {
			return err
		}
		if large, err = build(bop{Kind: "unknown", Types: c.Long}); err != nil {
			return err
		}
		var dst stun.UnknownAttributes
		get = func(m *stun.Message) error { return dst.GetFrom(m) }
	default:
		if small, err = build(bop{Kind: c.Getter, Type: c.Type, IP: c.IP4, Port: c.Port}); err != nil {
			return err
		}
		if large, err = build(bop{Kind: c.Getter, Type: c.Type, IP: c.IP6, Port: c.Port}); err != nil {
			return err
		}
		t := stun.AttrType(c.Type)
		switch c.Getter {
		case "xor":
			d := new(stun.XORMappedAddress)
			get = d.GetFrom
		case "xoras":
			d := new(stun.XORMappedAddress)
			get = func(m *stun.Message) error { return d.GetFromAs(m, t) }
		case "mapped":
			d := new(stun.MappedAddress)
			get = d.GetFrom
		case "mappedas":
			d := new(stun.MappedAddress)
			get = func(m *stun.Message) error { return d.GetFromAs(m, t) }
		case "alt":
			d := new(stun.AlternateServer)
			get = d.GetFrom
		case "origin":
			d := new(stun.ResponseOrigin)
			get = d.GetFrom
		case "other":
			d := new(stun.OtherAddress)
			get = d.GetFrom
		default:
			return fmt.Errorf("harness: unknown getter %q", c.Getter)
		}
	}
	msgs := []*stun.Message{small, large}
	// warm: the destination holds the larger form once
	if err := get(large); err != nil {
		return fmt.Errorf("harness: getter failed on the large message: %w", err)
	}
	var ferr error
	run := func() {
		for _, i := range c.Order {
			if e := get(msgs[i&1]); e != nil {
				ferr = e
			}
		}
	}
	n := testing.AllocsPerRun(5, run)
	for rep := 0; rep < 4 && n != 0 && ferr == nil; rep++ {
		if n2 := testing.AllocsPerRun(5, run); n2 < n {
			n = n2
		}
	}
	if ferr != nil {
		return fmt.Errorf("harness: getter failed: %w", ferr)
	}
	if n != 0 {
		return fmt.Errorf("%s into a destination that already held the larger value performs %v heap allocations per pass over the read sequence %v (0 = smaller value, 1 = larger)", c.Getter, n, c.Order)
	}

	return nil
}

func TestC20_DestinationReuse(t *testing.T) {
	if os.Getenv("VERIF_RACE") != "" {
		t.Skip("allocation counts are not meaningful under the race detector")
	}
	rec := evid.For("C20")
	pbt.Check(t, rec, "reuse", evid.Pick(1500, 30000), func(rt *rapid.T) (any, error) {
		c := c20Reuse{Getter: rapid.SampledFrom([]string{"xor", "xoras", "mapped", "mappedas", "alt", "origin", "other", "unknown"}).Draw(rt, "getter")}
		if c.Getter == "unknown" {
			c.Short = rapid.SliceOfN(rapid.Uint16(), 0, 6).Draw(rt, "short")
			c.Long = rapid.SliceOfN(rapid.Uint16(), 7, 20).Draw(rt, "long")
		} else {
			c.Type = addType(rt)
			c.IP4 = toHex(rapid.SliceOfN(rapid.Byte(), 4, 4).Draw(rt, "ip4"))
			ip6 := rapid.SliceOfN(rapid.Byte(), 16, 16).Draw(rt, "ip6")
			ip6[0] = 0x20
			c.IP6 = toHex(ip6)
			c.Port = genPort(rt)
		}
		c.Order = rapid.SliceOfN(rapid.IntRange(0, 1), 2, 8).Draw(rt, "order")
		switches := 0
		for i := 1; i < len(c.Order); i++ {
			if c.Order[i] != c.Order[i-1] {
				switches++
			}
		}
		rec.Case("reuse:"+c.Getter, evid.NewH().Str(fmt.Sprint(c)).Sum(), switches >= 2, func() any { return c })
		var err error
		if perr := pbt.Safely(func() { err = runC20Reuse(c) }); perr != nil {
			err = perr
		}

		return c, err
	})
}

func init() {
	replayers["C20/reuse"] = func(raw json.RawMessage) error {
		var c c20Reuse
		if err := json.Unmarshal(raw, &c); err != nil {
			return err
		}

		return runC20Reuse(c)
	}
}
