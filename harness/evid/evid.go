// Package evid records what a check actually explored (counters, distinct
// non-trivial case signatures, class histogram, samples) and writes replay
// files for violations. One stats file per test process; the driver merges
// them into /verif/evidence/<id>.json.
package evid

import (
	"encoding/binary"
	"encoding/hex"
	"encoding/json"
	"fmt"
	"os"
	"path/filepath"
	"sort"
	"strconv"
	"strings"
	"sync"
	"time"
)

const (
	maxHashes  = 3_000_000 // per process; beyond it distinct_nontrivial is a lower bound
	maxSamples = 8
)

// Rec accumulates evidence for one property in this process.
type Rec struct {
	mu         sync.Mutex
	prop       string
	evals      int64
	nontrivial int64
	hashes     map[uint64]struct{}
	capped     bool
	classes    map[string]int64
	counters   map[string]int64
	notes      map[string]any
	samples    []any
	nextSample int64
	exhaustive map[string]bool
	violations int
	replays    []string
	known      []string
	start      time.Time
}

var (
	regMu sync.Mutex
	reg   = map[string]*Rec{}
)

// For returns the recorder of property id.
func For(prop string) *Rec {
	regMu.Lock()
	defer regMu.Unlock()
	r := reg[prop]
	if r == nil {
		r = &Rec{
			prop: prop, hashes: map[uint64]struct{}{}, classes: map[string]int64{},
			counters: map[string]int64{}, notes: map[string]any{}, exhaustive: map[string]bool{},
			nextSample: 1, start: time.Now(),
		}
		reg[prop] = r
	}

	return r
}

// Case records one evaluated case. sample is called only when the case is
// kept as a sample (first few non-trivial ones, then exponentially rarer).
func (r *Rec) Case(class string, sig uint64, nontrivial bool, sample func() any) {
	r.mu.Lock()
	r.evals++
	r.classes[class]++
	take := false
	if nontrivial {
		r.nontrivial++
		if _, ok := r.hashes[sig]; !ok {
			if len(r.hashes) < maxHashes {
				r.hashes[sig] = struct{}{}
			} else {
				r.capped = true
			}
		}
		if r.nontrivial == r.nextSample && len(r.samples) < maxSamples {
			take = true
			r.nextSample *= 7
		}
	}
	r.mu.Unlock()
	if take && sample != nil {
		s := sample()
		r.mu.Lock()
		r.samples = append(r.samples, map[string]any{"class": class, "case": s})
		r.mu.Unlock()
	}
}

// Local is an unsynchronised recorder for a hot loop in one goroutine; Merge it
// into the shared Rec at the end.
type Local struct {
	evals   int64
	classes map[string]int64
	hashes  map[uint64]struct{}
	nontriv int64
}

// NewLocal returns an empty goroutine-local recorder.
func NewLocal() *Local {
	return &Local{classes: map[string]int64{}, hashes: map[uint64]struct{}{}}
}

// Case records a case locally.
func (l *Local) Case(class string, sig uint64, nontrivial bool) {
	l.evals++
	l.classes[class]++
	if nontrivial {
		l.nontriv++
		if len(l.hashes) < maxHashes {
			l.hashes[sig] = struct{}{}
		}
	}
}

// Merge folds a Local into r.
func (r *Rec) Merge(l *Local) {
	r.mu.Lock()
	defer r.mu.Unlock()
	r.evals += l.evals
	r.nontrivial += l.nontriv
	for k, v := range l.classes {
		r.classes[k] += v
	}
	for h := range l.hashes {
		if len(r.hashes) < maxHashes {
			r.hashes[h] = struct{}{}
		} else if _, ok := r.hashes[h]; !ok {
			r.capped = true
		}
	}
}

// Sample stores a sample explicitly (used by enumerators).
func (r *Rec) Sample(class string, s any) {
	r.mu.Lock()
	defer r.mu.Unlock()
	if len(r.samples) < maxSamples {
		r.samples = append(r.samples, map[string]any{"class": class, "case": s})
	}
}

// Count adds n to a named counter.
func (r *Rec) Count(name string, n int64) {
	r.mu.Lock()
	r.counters[name] += n
	r.mu.Unlock()
}

// Note sets a free-form evidence key.
func (r *Rec) Note(name string, v any) {
	r.mu.Lock()
	r.notes[name] = v
	r.mu.Unlock()
}

// Exhaustive declares that the named finite space was enumerated completely
// (ok=false retracts it, e.g. when sharded or cut short).
func (r *Rec) Exhaustive(space string, ok bool) {
	r.mu.Lock()
	r.exhaustive[space] = ok
	r.mu.Unlock()
}

// Known records that a listed known finding was reproduced.
func (r *Rec) Known(what string) {
	r.mu.Lock()
	r.known = append(r.known, what)
	r.mu.Unlock()
}

// Replay is the on-disk form of a failing case.
type Replay struct {
	Property string          `json:"property"`
	Kind     string          `json:"kind"`
	Tags     string          `json:"tags,omitempty"`
	Message  string          `json:"message"`
	Case     json.RawMessage `json:"case"`
}

// Violation writes a replay file for the failing case and returns its path.
// When replaying (VERIF_REPLAY_FILES set) nothing is written; the path replayed
// is returned instead.
func (r *Rec) Violation(kind string, c any, msg string) string {
	r.mu.Lock()
	defer r.mu.Unlock()
	r.violations++
	raw, err := json.Marshal(c)
	if err != nil {
		raw, _ = json.Marshal(fmt.Sprintf("%+v", c))
	}
	rp := Replay{Property: r.prop, Kind: kind, Tags: os.Getenv("VERIF_TAGS"), Message: msg, Case: raw}
	out, _ := json.MarshalIndent(rp, "", " ")
	dir := os.Getenv("VERIF_REPLAY_DIR")
	if dir == "" {
		dir = filepath.Join(os.TempDir(), "verif-replays")
	}
	_ = os.MkdirAll(dir, 0o755)
	h := NewH().Bytes(raw).Str(kind).Sum()
	// One slot per (kind, process): the last failure written for a kind is
	// the shrunk one, so later failures overwrite earlier ones.
	name := fmt.Sprintf("%s-%s-%s.json", r.prop, kind, os.Getenv("VERIF_SHARD_NAME"))
	_ = h
	path := filepath.Join(dir, name)
	if werr := os.WriteFile(path, out, 0o644); werr != nil {
		fmt.Fprintf(os.Stderr, "evid: cannot write replay %s: %v\n", path, werr)
	}
	r.replays = appendUnique(r.replays, path)

	return path
}

func appendUnique(s []string, v string) []string {
	for _, x := range s {
		if x == v {
			return s
		}
	}

	return append(s, v)
}

// ReplayFailed records that a saved replay still fails (no new file is written).
func (r *Rec) ReplayFailed(path, msg string) {
	r.mu.Lock()
	r.violations++
	r.replays = appendUnique(r.replays, path)
	r.notes["replay_failure:"+path] = msg
	r.mu.Unlock()
}

// Violations reports how many violations were recorded.
func (r *Rec) Violations() int {
	r.mu.Lock()
	defer r.mu.Unlock()

	return r.violations
}

// ResetViolations forgets violations recorded so far (used around rapid
// shrinking, where only the last failing run matters for the count).
func (r *Rec) ResetViolations() {
	r.mu.Lock()
	r.violations = 0
	r.mu.Unlock()
}

type statsFile struct {
	Property   string           `json:"property"`
	Evals      int64            `json:"evaluations"`
	Nontrivial int64            `json:"nontrivial_total"`
	Distinct   int              `json:"distinct_nontrivial"`
	Capped     bool             `json:"distinct_capped"`
	Classes    map[string]int64 `json:"classes"`
	Counters   map[string]int64 `json:"counters"`
	Notes      map[string]any   `json:"notes"`
	Samples    []any            `json:"samples"`
	Exhaustive map[string]bool  `json:"exhaustive"`
	Violations int              `json:"violations"`
	Replays    []string         `json:"replays"`
	Known      []string         `json:"known"`
	WallS      float64          `json:"wall_s"`
	HashFile   string           `json:"hash_file"`
}

// Flush writes every recorder to $VERIF_STATS_OUT.<prop>.json (+ .hashes).
func Flush() {
	base := os.Getenv("VERIF_STATS_OUT")
	if base == "" {
		return
	}
	regMu.Lock()
	defer regMu.Unlock()
	for _, r := range reg {
		r.mu.Lock()
		hs := make([]uint64, 0, len(r.hashes))
		for h := range r.hashes {
			hs = append(hs, h)
		}
		sort.Slice(hs, func(i, j int) bool { return hs[i] < hs[j] })
		hb := make([]byte, 8*len(hs))
		for i, h := range hs {
			binary.LittleEndian.PutUint64(hb[8*i:], h)
		}
		hf := base + "." + r.prop + ".hashes"
		_ = os.WriteFile(hf, hb, 0o644)
		sf := statsFile{
			Property: r.prop, Evals: r.evals, Nontrivial: r.nontrivial, Distinct: len(hs), Capped: r.capped,
			Classes: r.classes, Counters: r.counters, Notes: r.notes, Samples: r.samples, Exhaustive: r.exhaustive,
			Violations: r.violations, Replays: r.replays, Known: r.known,
			WallS: time.Since(r.start).Seconds(), HashFile: hf,
		}
		out, err := json.Marshal(sf)
		if err != nil {
			// a sample that cannot be marshalled must not lose the counts
			sf.Samples = []any{fmt.Sprintf("%v", r.samples)}
			out, _ = json.Marshal(sf)
		}
		_ = os.WriteFile(base+"."+r.prop+".json", out, 0o644)
		r.mu.Unlock()
	}
}

// ---- environment helpers -------------------------------------------------

// Tier returns "quick" or "thorough".
func Tier() string {
	if os.Getenv("VERIF_TIER") == "thorough" {
		return "thorough"
	}

	return "quick"
}

// Thorough reports whether the thorough tier runs.
func Thorough() bool { return Tier() == "thorough" }

// Pick returns q in the quick tier and th in the thorough tier.
func Pick(q, th int) int {
	if Thorough() {
		return th
	}

	return q
}

// Shard returns this process's shard index and the shard count (0,1 default).
func Shard() (int, int) {
	s := os.Getenv("VERIF_SHARD")
	if s == "" {
		return 0, 1
	}
	parts := strings.Split(s, "/")
	if len(parts) != 2 {
		return 0, 1
	}
	i, _ := strconv.Atoi(parts[0])
	n, _ := strconv.Atoi(parts[1])
	if n <= 0 || i < 0 || i >= n {
		return 0, 1
	}

	return i, n
}

// Seed returns the VERIF_SEED value (default 1).
func Seed() uint64 {
	v, err := strconv.ParseUint(os.Getenv("VERIF_SEED"), 10, 64)
	if err != nil {
		return 1
	}

	return v
}

// ReplayFiles lists the replay files this process was asked to re-run.
func ReplayFiles() []string {
	v := os.Getenv("VERIF_REPLAY_FILES")
	if v == "" {
		return nil
	}

	return strings.Split(v, ":")
}

// LoadReplay reads a replay file.
func LoadReplay(path string) (*Replay, error) {
	b, err := os.ReadFile(path)
	if err != nil {
		return nil, err
	}
	var rp Replay
	if err := json.Unmarshal(b, &rp); err != nil {
		return nil, err
	}

	return &rp, nil
}

// ---- hashing ---------------------------------------------------------------

// H is a small FNV-1a 64 hasher for case signatures.
type H struct{ h uint64 }

// NewH returns a hasher.
func NewH() *H { return &H{h: 14695981039346656037} }

func (x *H) b(c byte) { x.h ^= uint64(c); x.h *= 1099511628211 }

// Bytes mixes a length-prefixed byte string.
func (x *H) Bytes(p []byte) *H {
	x.U(uint64(len(p)))
	for _, c := range p {
		x.b(c)
	}

	return x
}

// Str mixes a string.
func (x *H) Str(s string) *H {
	x.U(uint64(len(s)))
	for i := 0; i < len(s); i++ {
		x.b(s[i])
	}

	return x
}

// U mixes an integer.
func (x *H) U(v uint64) *H {
	for i := 0; i < 8; i++ {
		x.b(byte(v >> (8 * i)))
	}

	return x
}

// I mixes an int.
func (x *H) I(v int) *H { return x.U(uint64(int64(v))) }

// Sum returns the signature.
func (x *H) Sum() uint64 { return x.h }

// Hex renders bytes for samples, truncated when long.
func Hex(b []byte) string {
	if len(b) <= 96 {
		return hex.EncodeToString(b)
	}

	return hex.EncodeToString(b[:64]) + fmt.Sprintf("...(%d bytes)...", len(b)) + hex.EncodeToString(b[len(b)-16:])
}
