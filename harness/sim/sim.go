// Package sim provides the controlled environment for stun.Client: a
// scripted Connection, a virtual Clock, a manual Collector and a delegating
// ClientAgent - all injected through public options, no source hooks.
package sim

import (
	"errors"
	"io"
	"net"
	"os"
	"runtime"
	"sync"
	"sync/atomic"
	"syscall"
	"time"

	"github.com/pion/stun/v3"
)

// Base is virtual time zero.
var Base = time.Date(2021, 6, 1, 12, 0, 0, 0, time.UTC)

// Clock is a virtual clock.
type Clock struct {
	ns    atomic.Int64
	OnNow func() // optional gate, called on every Now()
}

// Now implements stun.Clock.
func (c *Clock) Now() time.Time {
	if c.OnNow != nil {
		c.OnNow()
	}

	return Base.Add(time.Duration(c.ns.Load()))
}

// Set moves the clock to d after Base.
func (c *Clock) Set(d time.Duration) { c.ns.Store(int64(d)) }

// Elapsed returns the virtual time since Base.
func (c *Clock) Elapsed() time.Duration { return time.Duration(c.ns.Load()) }

// WriteRec is one Write on the connection.
type WriteRec struct {
	Bytes []byte
	At    time.Duration // virtual time
	Err   error         // what Write returned
	Seq   int64
}

// ErrInjectedWrite is the scripted write failure.
var ErrInjectedWrite = errors.New("sim: injected write failure")

// ErrConnClosed is returned by Read/Write after Close.
var ErrConnClosed = errors.New("sim: connection closed")

// Conn is a scripted stun.Connection.
type Conn struct {
	mu   sync.Mutex
	cond *sync.Cond

	clock *Clock
	seq   *atomic.Int64

	queue      [][]byte
	taken      int
	waiting    bool // reader is parked in Read
	reads      int
	closed     bool
	readerGone bool

	Writes     []WriteRec
	CloseCalls int
	CloseErr   error
	failID     map[[12]byte]int // fail the next n writes carrying this transaction id
	failAll    int              // fail the next n writes whatever they carry
	readErrs   int              // make the next n Reads fail (without closing)
	readErrSeq int

	// gates (nil in deterministic mode)
	OnWrite func(b []byte)
	OnRead  func()
	OnClose func()
	// AfterWrite runs after a write was recorded (still inside Write)
	AfterWrite func(b []byte, err error)
}

// NewConn returns a connection using clock for write stamps.
func NewConn(clock *Clock, seq *atomic.Int64) *Conn {
	c := &Conn{clock: clock, seq: seq, failID: map[[12]byte]int{}}
	c.cond = sync.NewCond(&c.mu)

	return c
}

// Read blocks until a datagram is delivered or the connection is closed.
func (c *Conn) Read(p []byte) (int, error) {
	if c.OnRead != nil {
		c.OnRead()
	}
	c.mu.Lock()
	defer c.mu.Unlock()
	c.reads++
	c.waiting = true
	c.cond.Broadcast()
	for len(c.queue) == 0 && !c.closed && c.readErrs == 0 {
		c.cond.Wait()
	}
	c.waiting = false
	if c.closed {
		c.cond.Broadcast()

		return 0, ErrConnClosed
	}
	if c.readErrs > 0 && len(c.queue) == 0 {
		c.readErrs--
		c.readErrSeq++
		c.cond.Broadcast()
		// transient errors of the kinds a UDP socket produces, in rotation
		switch c.readErrSeq % 3 {
		case 0:
			return 0, &net.OpError{Op: "read", Net: "udp", Err: syscall.ECONNREFUSED} // ICMP port unreachable
		case 1:
			return 0, io.ErrNoProgress
		default:
			return 0, &net.OpError{Op: "read", Net: "udp", Err: os.ErrDeadlineExceeded} // read deadline
		}
	}
	d := c.queue[0]
	c.queue = c.queue[1:]
	c.taken++
	n := copy(p, d)
	c.cond.Broadcast()

	return n, nil
}

// Write records the datagram; fails when scripted to.
func (c *Conn) Write(p []byte) (int, error) {
	if c.OnWrite != nil {
		c.OnWrite(p)
	}
	c.mu.Lock()
	var err error
	switch {
	case c.closed:
		err = ErrConnClosed
	case c.failAll > 0:
		c.failAll--
		err = ErrInjectedWrite
	case len(p) >= 20:
		var id [12]byte
		copy(id[:], p[8:20])
		if c.failID[id] > 0 {
			c.failID[id]--
			err = ErrInjectedWrite
		}
	}
	rec := WriteRec{Bytes: append([]byte(nil), p...), At: c.clock.Elapsed(), Err: err, Seq: c.seq.Add(1)}
	c.Writes = append(c.Writes, rec)
	aw := c.AfterWrite
	c.mu.Unlock()
	if aw != nil {
		aw(p, err)
	}
	if err != nil {
		return 0, err
	}

	return len(p), nil
}

// Close closes the connection (unblocking Read) and returns the scripted error.
func (c *Conn) Close() error {
	if c.OnClose != nil {
		c.OnClose()
	}
	c.mu.Lock()
	defer c.mu.Unlock()
	c.CloseCalls++
	c.closed = true
	c.cond.Broadcast()

	return c.CloseErr
}

// FailWritesFor makes the next n writes carrying id fail.
func (c *Conn) FailWritesFor(id [12]byte, n int) {
	c.mu.Lock()
	c.failID[id] += n
	c.mu.Unlock()
}

// FailNextWrites makes the next n writes fail.
func (c *Conn) FailNextWrites(n int) {
	c.mu.Lock()
	c.failAll += n
	c.mu.Unlock()
}

// Deliver hands a datagram to the reader and waits until the reader has
// processed it and is parked in Read again (or is gone / closed). It reports
// whether the datagram was consumed.
func (c *Conn) Deliver(d []byte) bool {
	c.mu.Lock()
	defer c.mu.Unlock()
	if c.closed || c.readerGone {
		return false
	}
	c.queue = append(c.queue, append([]byte(nil), d...))
	target := c.taken + len(c.queue)
	c.cond.Broadcast()
	deadline := time.Now().Add(30 * time.Second)
	for !(c.taken >= target && c.waiting) && !c.closed && !c.readerGone {
		if time.Now().After(deadline) {
			return false
		}
		waitCond(c.cond, 50*time.Millisecond)
	}

	return c.taken >= target
}

// Enqueue hands a datagram to the reader without waiting (concurrent modes).
func (c *Conn) Enqueue(d []byte) {
	c.mu.Lock()
	if !c.closed {
		c.queue = append(c.queue, append([]byte(nil), d...))
		c.cond.Broadcast()
	}
	c.mu.Unlock()
}

// WaitReaderParked waits until the reader goroutine sits in Read.
func (c *Conn) WaitReaderParked(d time.Duration) bool {
	c.mu.Lock()
	defer c.mu.Unlock()
	deadline := time.Now().Add(d)
	for !c.waiting && !c.closed {
		if time.Now().After(deadline) {
			return false
		}
		waitCond(c.cond, 20*time.Millisecond)
	}

	return true
}

// Unblock makes a parked Read return once with a transient error (used under
// WithNoConnClose, whose precondition is that Read eventually returns).
func (c *Conn) Unblock() {
	c.mu.Lock()
	c.readErrs++
	c.cond.Broadcast()
	c.mu.Unlock()
}

// ReadError makes the parked Read return one transient error and waits until
// the reader has taken it and is parked in Read again (false: the reader did
// not come back within d).
func (c *Conn) ReadError(d time.Duration) bool {
	c.mu.Lock()
	defer c.mu.Unlock()
	if c.closed {
		return true
	}
	c.readErrs++
	c.cond.Broadcast()
	deadline := time.Now().Add(d)
	for (c.readErrs > 0 || !c.waiting) && !c.closed {
		if time.Now().After(deadline) {
			return false
		}
		waitCond(c.cond, 20*time.Millisecond)
	}

	return true
}

// Snapshot returns copies of the write log and the close count.
func (c *Conn) Snapshot() ([]WriteRec, int) {
	c.mu.Lock()
	defer c.mu.Unlock()

	return append([]WriteRec(nil), c.Writes...), c.CloseCalls
}

// waitCond waits on cond for at most d (cond.L held).
func waitCond(cond *sync.Cond, d time.Duration) {
	// The wake-up takes the lock first: the caller holds it until Wait has put itself on the wait list,
	// so the broadcast cannot be lost when the timer fires before Wait has started (busy machine).
	t := time.AfterFunc(d, func() {
		cond.L.Lock()
		cond.Broadcast()
		cond.L.Unlock()
	})
	cond.Wait()
	t.Stop()
}

// Collector is a manual stun.Collector. Like the built-in ticker collector,
// Close waits for a callback that is in progress and no callback starts
// afterwards.
type Collector struct {
	mu       sync.Mutex
	run      sync.RWMutex // held shared by Tick while the callback runs
	f        func(time.Time)
	closed   bool
	Started  int
	Closed   int
	StartErr error
	CloseErr error
	OnTick   func()
	OnClose  func() // gate, called on entry to Close
	// NoWait makes Close return without waiting for a callback in progress
	// (a collector written like the repository's own test collectors). Only
	// for checks that do not assert "no handler after Close returned".
	NoWait bool
}

// Start implements stun.Collector.
func (c *Collector) Start(_ time.Duration, f func(now time.Time)) error {
	c.mu.Lock()
	defer c.mu.Unlock()
	c.Started++
	if c.StartErr != nil {
		return c.StartErr
	}
	c.f = f

	return nil
}

// Close implements stun.Collector.
func (c *Collector) Close() error {
	if c.OnClose != nil {
		c.OnClose()
	}
	if c.NoWait {
		c.mu.Lock()
		c.Closed++
		c.closed = true
		err := c.CloseErr
		c.mu.Unlock()

		return err
	}
	c.run.Lock()
	c.mu.Lock()
	c.Closed++
	c.closed = true
	err := c.CloseErr
	c.mu.Unlock()
	c.run.Unlock()

	return err
}

// Tick invokes the client's collect callback with t (no-op once closed).
func (c *Collector) Tick(t time.Time) {
	if !c.run.TryRLock() {
		return // Close in progress
	}
	defer c.run.RUnlock()
	c.mu.Lock()
	f, closed := c.f, c.closed
	c.mu.Unlock()
	if closed {
		return
	}
	if c.OnTick != nil {
		c.OnTick()
	}
	if f != nil {
		f(t)
	}
}

// Tap is a delegating stun.ClientAgent with optional hooks around each call.
type Tap struct {
	Inner    stun.ClientAgent
	Before   func(op string, id [12]byte) // called before delegating
	After    func(op string, id [12]byte, err error)
	CloseErr error                   // returned from Close (after delegating) when set
	Refuse   func(id [12]byte) error // when set and non-nil for id: Start fails with it and nothing is registered (a custom agent may refuse)
	mu       sync.Mutex
	Calls    map[string]int
}

func (t *Tap) note(op string) {
	t.mu.Lock()
	if t.Calls == nil {
		t.Calls = map[string]int{}
	}
	t.Calls[op]++
	t.mu.Unlock()
}

func (t *Tap) around(op string, id [12]byte, f func() error) error {
	t.note(op)
	if t.Before != nil {
		t.Before(op, id)
	}
	err := f()
	if t.After != nil {
		t.After(op, id, err)
	}

	return err
}

// Process implements stun.ClientAgent.
func (t *Tap) Process(m *stun.Message) error {
	return t.around("process", m.TransactionID, func() error { return t.Inner.Process(m) })
}

// Close implements stun.ClientAgent.
func (t *Tap) Close() error {
	return t.around("close", [12]byte{}, func() error {
		err := t.Inner.Close()
		if err == nil && t.CloseErr != nil {
			return t.CloseErr
		}

		return err
	})
}

// Start implements stun.ClientAgent.
func (t *Tap) Start(id [stun.TransactionIDSize]byte, deadline time.Time) error {
	return t.around("start", id, func() error {
		if t.Refuse != nil {
			if err := t.Refuse(id); err != nil {
				return err
			}
		}

		return t.Inner.Start(id, deadline)
	})
}

// Stop implements stun.ClientAgent.
func (t *Tap) Stop(id [stun.TransactionIDSize]byte) error {
	return t.around("stop", id, func() error { return t.Inner.Stop(id) })
}

// Collect implements stun.ClientAgent.
func (t *Tap) Collect(tm time.Time) error {
	return t.around("collect", [12]byte{}, func() error { return t.Inner.Collect(tm) })
}

// SetHandler implements stun.ClientAgent.
func (t *Tap) SetHandler(h stun.Handler) error {
	return t.around("sethandler", [12]byte{}, func() error { return t.Inner.SetHandler(h) })
}

// World bundles one client with its environment.
type World struct {
	Clock  *Clock
	Conn   *Conn
	Coll   *Collector
	Agent  *Tap
	Client *stun.Client
	Seq    atomic.Int64 // global stamp counter
}

// Options configure a World.
type Options struct {
	RTO          time.Duration
	NoRetransmit bool
	NoConnClose  bool
	Fallback     stun.Handler
	RealAgent    bool // use the default agent without the tap
}

// NewWorld creates the environment and the client.
func NewWorld(o Options) (*World, error) {
	w := &World{Clock: &Clock{}, Coll: &Collector{}}
	w.Conn = NewConn(w.Clock, &w.Seq)
	w.Agent = &Tap{Inner: stun.NewAgent(nil)}
	opts := []stun.ClientOption{stun.WithClock(w.Clock), stun.WithCollector(w.Coll)}
	if !o.RealAgent {
		opts = append(opts, stun.WithAgent(w.Agent))
	}
	if o.RTO > 0 {
		opts = append(opts, stun.WithRTO(o.RTO))
	}
	if o.NoRetransmit {
		opts = append(opts, stun.WithNoRetransmit)
	}
	if o.NoConnClose {
		opts = append(opts, stun.WithNoConnClose())
	}
	if o.Fallback != nil {
		opts = append(opts, stun.WithHandler(o.Fallback))
	}
	c, err := stun.NewClient(w.Conn, opts...)
	if err != nil {
		return nil, err
	}
	w.Client = c
	w.Conn.WaitReaderParked(10 * time.Second)

	return w, nil
}

// Release is called by the harness when a world is finished: the client carries a finalizer,
// and a finalizable object inside a reference cycle (client -> collector/connection hook/handler
// closure -> world -> client) is never garbage collected. Clearing the finalizer of the closed
// client and the harness-side back references lets the whole world be collected.
func (w *World) Release() {
	if w.Client != nil {
		runtime.SetFinalizer(w.Client, nil)
	}
	w.Client = nil
	w.Conn.AfterWrite, w.Conn.OnWrite, w.Conn.OnRead, w.Conn.OnClose = nil, nil, nil, nil
	w.Agent.Before, w.Agent.After = nil, nil
	w.Coll.OnClose, w.Coll.OnTick = nil, nil
	w.Coll.mu.Lock()
	w.Coll.f = nil
	w.Coll.mu.Unlock()
}

// Tick moves the clock to d and runs the collector callback at that time.
func (w *World) Tick(d time.Duration) {
	w.Clock.Set(d)
	w.Coll.Tick(Base.Add(d))
}
