package ref

import (
	"sort"
	"strconv"
)

// AgentCall is one call on the transaction agent, in symbolic form.
type AgentCall struct {
	Op string `json:"op"` // start stop stoperr process collect sethandler close
	ID int    `json:"id,omitempty"`
	T  int64  `json:"t,omitempty"` // deadline (start) or collect time, abstract ticks
	H  int    `json:"h,omitempty"` // handler index for sethandler
	E  int    `json:"e,omitempty"` // custom error index for stoperr
	C  int    `json:"c,omitempty"` // process: class of the message (0 request, 1 indication, 2 success, 3 error) - irrelevant to the specification
}

// AgentEvent is one handler invocation in symbolic form.
type AgentEvent struct {
	H   int    `json:"h"`   // which handler received it
	ID  int    `json:"id"`  // transaction
	Err string `json:"err"` // "nil" (message), "stopped", "timeout", "closed", "custom:<k>"
	Msg int    `json:"msg"` // message token for process events (0 = nil)
}

// AgentModel is the abstract transaction table (DESIGN appendix A).
type AgentModel struct {
	Closed  bool
	Handler int
	Tx      map[int]int64 // id -> deadline
}

// NewAgentModel returns the initial state with handler h.
func NewAgentModel(h int) *AgentModel { return &AgentModel{Handler: h, Tx: map[int]int64{}} }

// Clone copies the state.
func (m *AgentModel) Clone() *AgentModel {
	c := &AgentModel{Closed: m.Closed, Handler: m.Handler, Tx: make(map[int]int64, len(m.Tx))}
	for k, v := range m.Tx {
		c.Tx[k] = v
	}

	return c
}

// Step applies a call; it returns the symbolic return value ("nil", "closed",
// "exists", "notexists") and the events the call delivers (order free).
// msgToken identifies the message of a process call.
func (m *AgentModel) Step(c AgentCall, msgToken int) (ret string, events []AgentEvent) {
	if m.Closed {
		return "closed", nil
	}
	switch c.Op {
	case "start":
		if _, ok := m.Tx[c.ID]; ok {
			return "exists", nil
		}
		m.Tx[c.ID] = c.T

		return "nil", nil
	case "stop", "stoperr":
		if _, ok := m.Tx[c.ID]; !ok {
			return "notexists", nil
		}
		delete(m.Tx, c.ID)
		e := "stopped"
		if c.Op == "stoperr" {
			e = customErr(c.E)
		}

		return "nil", []AgentEvent{{H: m.Handler, ID: c.ID, Err: e}}
	case "process":
		delete(m.Tx, c.ID)

		return "nil", []AgentEvent{{H: m.Handler, ID: c.ID, Err: "nil", Msg: msgToken}}
	case "collect":
		for id, d := range m.Tx {
			if d < c.T {
				events = append(events, AgentEvent{H: m.Handler, ID: id, Err: "timeout"})
				delete(m.Tx, id)
			}
		}

		return "nil", events
	case "sethandler":
		m.Handler = c.H

		return "nil", nil
	case "close":
		for id := range m.Tx {
			events = append(events, AgentEvent{H: m.Handler, ID: id, Err: "closed"})
		}
		m.Tx = map[int]int64{}
		m.Closed = true

		return "nil", events
	}

	return "harness: unknown op " + c.Op, nil
}

func customErr(k int) string {
	if k < 0 {
		return "nil" // StopWithError(id, nil): the event carries a nil error
	}

	return "custom:" + string(rune('0'+k))
}

// CustomErrName is the symbolic name of custom error k.
func CustomErrName(k int) string { return customErr(k) }

// SortEvents orders events canonically (multiset comparison).
func SortEvents(ev []AgentEvent) {
	sort.Slice(ev, func(i, j int) bool {
		a, b := ev[i], ev[j]
		if a.ID != b.ID {
			return a.ID < b.ID
		}
		if a.Err != b.Err {
			return a.Err < b.Err
		}
		if a.H != b.H {
			return a.H < b.H
		}

		return a.Msg < b.Msg
	})
}

// EventsEqual compares two event multisets.
func EventsEqual(a, b []AgentEvent) bool {
	if len(a) != len(b) {
		return false
	}
	x := append([]AgentEvent(nil), a...)
	y := append([]AgentEvent(nil), b...)
	SortEvents(x)
	SortEvents(y)
	for i := range x {
		if x[i] != y[i] {
			return false
		}
	}

	return true
}

// Key is a canonical encoding of the abstract state (for state coverage).
func (m *AgentModel) Key() string {
	ids := make([]int, 0, len(m.Tx))
	for id := range m.Tx {
		ids = append(ids, id)
	}
	sort.Ints(ids)
	k := []byte{'o', byte('0' + m.Handler)}
	if m.Closed {
		k[0] = 'c'
	}
	for _, id := range ids {
		k = append(k, byte('a'+id))
		k = strconv.AppendInt(k, m.Tx[id], 10)
		k = append(k, ',')
	}

	return string(k)
}
