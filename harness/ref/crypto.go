package ref

import (
	"bytes"
	"crypto/md5"  //nolint:gosec
	"crypto/sha1" //nolint:gosec
	"crypto/sha256"
)

// HMACSHA1 is RFC 2104 by definition: H((K' xor opad) || H((K' xor ipad) || m)).
func HMACSHA1(key, msg []byte) []byte {
	const block = 64
	k := make([]byte, block)
	if len(key) > block {
		s := sha1.Sum(key) //nolint:gosec
		copy(k, s[:])
	} else {
		copy(k, key)
	}
	in := make([]byte, 0, block+len(msg))
	out := make([]byte, 0, block+sha1.Size)
	for _, c := range k {
		in = append(in, c^0x36)
		out = append(out, c^0x5c)
	}
	in = append(in, msg...)
	is := sha1.Sum(in) //nolint:gosec
	out = append(out, is[:]...)
	os := sha1.Sum(out) //nolint:gosec

	return os[:]
}

// HMACSHA256 is RFC 2104 with SHA-256.
func HMACSHA256(key, msg []byte) []byte {
	const block = 64
	k := make([]byte, block)
	if len(key) > block {
		s := sha256.Sum256(key)
		copy(k, s[:])
	} else {
		copy(k, key)
	}
	in := make([]byte, 0, block+len(msg))
	out := make([]byte, 0, block+sha256.Size)
	for _, c := range k {
		in = append(in, c^0x36)
		out = append(out, c^0x5c)
	}
	in = append(in, msg...)
	is := sha256.Sum256(in)
	out = append(out, is[:]...)
	os := sha256.Sum256(out)

	return os[:]
}

// CRC32 is the reflected IEEE CRC-32 (poly 0xEDB88320), bit by bit, no table.
func CRC32(b []byte) uint32 {
	crc := ^uint32(0)
	for _, c := range b {
		crc ^= uint32(c)
		for i := 0; i < 8; i++ {
			if crc&1 != 0 {
				crc = crc>>1 ^ 0xEDB88320
			} else {
				crc >>= 1
			}
		}
	}

	return ^crc
}

// FPXor is the FINGERPRINT xor constant of RFC 5389 section 15.5.
const FPXor = 0x5354554e

// Fingerprint is the attribute value for the bytes that precede it.
func Fingerprint(preceding []byte) uint32 { return CRC32(preceding) ^ FPXor }

// LongTermKey is MD5(user ":" realm ":" pass).
func LongTermKey(user, realm, pass string) []byte {
	s := md5.Sum([]byte(user + ":" + realm + ":" + pass)) //nolint:gosec

	return s[:]
}

// First returns the first attribute of (mapped) type t.
func (m Msg) First(t uint16) (Attr, bool) {
	for _, a := range m.Attrs {
		if a.Type == t {
			return a, true
		}
	}

	return Attr{}, false
}

// MICovered returns the HMAC input for a MESSAGE-INTEGRITY attribute whose
// value starts at body offset off: all bytes before the attribute header,
// with the header length rewritten to end at that (20-byte) attribute.
func MICovered(raw []byte, off int) []byte {
	c := append([]byte(nil), raw[:20+off-4]...)
	l := off + 20
	c[2], c[3] = byte(l>>8), byte(l)

	return c
}

// MIVerdict is RFC 5389 section 15.4 as restated by property C04: true iff raw
// parses, its first MESSAGE-INTEGRITY attribute is 20 bytes long and equals
// HMAC-SHA1(key, covered bytes).
func MIVerdict(raw, key []byte) bool {
	m, ok := Parse(raw)
	if !ok {
		return false
	}
	a, ok := m.First(0x0008)
	if !ok || a.Len != 20 {
		return false
	}

	return bytes.Equal(a.Value, HMACSHA1(key, MICovered(raw, a.Off)))
}

// FPVerdict is property C05's iff: first FINGERPRINT has a 4-byte value equal
// to CRC-32 of everything before the last 8 bytes of raw, xor 0x5354554e.
func FPVerdict(raw []byte) bool {
	m, ok := Parse(raw)
	if !ok {
		return false
	}
	a, ok := m.First(0x8028)
	if !ok || a.Len != 4 {
		return false
	}
	if len(raw) < 8 {
		return false
	}
	want := Fingerprint(raw[:len(raw)-8])
	got := uint32(a.Value[0])<<24 | uint32(a.Value[1])<<16 | uint32(a.Value[2])<<8 | uint32(a.Value[3])

	return got == want
}
