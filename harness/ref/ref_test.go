package ref

import (
	"bytes"
	"crypto/hmac"
	"crypto/sha1" //nolint:gosec
	"crypto/sha256"
	"encoding/hex"
	"hash/crc32"
	"math/rand"
	"testing"
)

// RFC 5769 2.1 sample request (short-term, password "VOkJxbRl1RmTxUk/WvJxBt").
const rfc5769Req = "000100582112a442b7e7a701bc34d686fa87dfae802200105354554e207465737420636c69656e74" +
	"002400046e0001ff80290008932ff9b151263b36000600096576746a3a68367659202020" +
	"00080014" + "9aeaa70cbfd8cb56781ef2b5b2d3f249c1b571a2" + "80280004e57a3bcf"

func TestSelfCheck(t *testing.T) {
	r := rand.New(rand.NewSource(1)) //nolint:gosec
	for i := 0; i < 2000; i++ {
		k := make([]byte, r.Intn(200))
		m := make([]byte, r.Intn(500))
		r.Read(k)
		r.Read(m)
		h := hmac.New(sha1.New, k)
		h.Write(m)
		if !bytes.Equal(h.Sum(nil), HMACSHA1(k, m)) {
			t.Fatalf("hmac-sha1 oracle disagreement key=%x", k)
		}
		h2 := hmac.New(sha256.New, k)
		h2.Write(m)
		if !bytes.Equal(h2.Sum(nil), HMACSHA256(k, m)) {
			t.Fatalf("hmac-sha256 oracle disagreement key=%x", k)
		}
		if crc32.ChecksumIEEE(m) != CRC32(m) {
			t.Fatalf("crc oracle disagreement")
		}
	}
	raw, _ := hex.DecodeString(rfc5769Req)
	m, ok := Parse(raw)
	if !ok || len(m.Attrs) != 6 || m.Method != 1 || m.Class != 0 {
		t.Fatalf("rfc5769 parse: ok=%v %+v", ok, m)
	}
	if !MIVerdict(raw, []byte("VOkJxbRl1RmTxUk/WvJxBt")) {
		t.Fatal("rfc5769 request must verify under its password")
	}
	if MIVerdict(raw, []byte("VOkJxbRl1RmTxUk/WvJxBu")) {
		t.Fatal("rfc5769 request must not verify under another password")
	}
	if !FPVerdict(raw) {
		t.Fatal("rfc5769 fingerprint must verify")
	}
	for v := 0; v < 1<<14; v++ {
		c, me := TypeRead(uint16(v))
		if TypeValue(me, c) != uint16(v) {
			t.Fatalf("type bijection broken at %x", v)
		}
	}
	if TypeValue(1, 0) != 0x0001 || TypeValue(1, 2) != 0x0101 || TypeValue(1, 3) != 0x0111 || TypeValue(1, 1) != 0x0011 ||
		TypeValue(0xFFF, 0) != 0x3EEF || TypeValue(0x080, 0) != 0x0200 || TypeValue(0x010, 0) != 0x0020 {
		t.Fatal("type layout does not match RFC 5389 known values")
	}
	// RFC 5769 2.2: XOR-MAPPED-ADDRESS 192.0.2.1:32853 is a147 e112a643 under the cookie.
	x := EncodeXor([]byte{192, 0, 2, 1}, 32853, [12]byte{})
	if hex.EncodeToString(x) != "0001a147e112a643" {
		t.Fatalf("xor addr encoding %x", x)
	}
	// RFC 5769 2.3 IPv6 2001:db8:1234:5678:11:2233:4455:6677 port 32853
	tid := [12]byte{0xb7, 0xe7, 0xa7, 0x01, 0xbc, 0x34, 0xd6, 0x86, 0xfa, 0x87, 0xdf, 0xae}
	ip6, _ := hex.DecodeString("20010db8123456780011223344556677")
	x6 := EncodeXor(ip6, 32853, tid)
	if hex.EncodeToString(x6) != "0002a1470113a9faa5d3f179bc25f4b5bed2b9d9" {
		t.Fatalf("xor addr v6 encoding %x", x6)
	}
	if hex.EncodeToString(LongTermKey("user", "realm", "pass")) != "8493fbc53ba582fb4c044c456bdc40eb" {
		t.Fatalf("long term key %x", LongTermKey("user", "realm", "pass"))
	}
}
