// Package ref holds the independent oracles: RFC 5389 framing, type bit
// layout, HMAC (RFC 2104 by definition), CRC-32 (bitwise), attribute codecs.
// It never imports pion/stun.
package ref

// Cookie is the RFC 5389 magic cookie.
const Cookie = 0x2112A442

// Attr is one TLV of a parsed message.
type Attr struct {
	WireType uint16 // as found on the wire
	Type     uint16 // after the 0x8020 -> 0x0020 legacy mapping
	Len      int    // declared value length
	Off      int    // offset of the value inside the body (body = raw[20:20+Length])
	Value    []byte // view into the parsed buffer
}

// Msg is an RFC 5389 message.
type Msg struct {
	TypeRaw uint16
	Class   uint8
	Method  uint16
	Length  int
	TID     [12]byte
	Attrs   []Attr
}

func be16(b []byte) uint16 { return uint16(b[0])<<8 | uint16(b[1]) }

// Pad rounds n up to a multiple of 4.
func Pad(n int) int { return (n + 3) / 4 * 4 }

// Parse is RFC 5389 section 6 / 15 framing. ok is false when b is not a
// message. Tolerated: leading two type bits, bytes after the declared length,
// padding content, legacy 0x8020.
func Parse(b []byte) (m Msg, ok bool) {
	if len(b) < 20 {
		return m, false
	}
	if uint32(b[4])<<24|uint32(b[5])<<16|uint32(b[6])<<8|uint32(b[7]) != Cookie {
		return m, false
	}
	m.TypeRaw = be16(b[0:2])
	m.Class, m.Method = TypeRead(m.TypeRaw)
	m.Length = int(be16(b[2:4]))
	if len(b) < 20+m.Length {
		return m, false
	}
	copy(m.TID[:], b[8:20])
	body := b[20 : 20+m.Length]
	pos := 0
	for pos < len(body) {
		if len(body)-pos < 4 {
			return m, false
		}
		t := be16(body[pos:])
		l := int(be16(body[pos+2:]))
		if len(body)-pos-4 < Pad(l) {
			return m, false
		}
		a := Attr{WireType: t, Type: t, Len: l, Off: pos + 4, Value: body[pos+4 : pos+4+l]}
		if t == 0x8020 {
			a.Type = 0x0020
		}
		m.Attrs = append(m.Attrs, a)
		pos += 4 + Pad(l)
	}

	return m, true
}

// TypeValue places method bits M0-M11 and class bits C0,C1 as in RFC 5389
// figure 3, bit by bit:
//
//	bit: 13 12 11 10 9 8  7 6 5 4  3 2 1 0
//	     M11 M10 M9 M8 M7 C1 M6 M5 M4 C0 M3 M2 M1 M0
func TypeValue(method uint16, class uint8) uint16 {
	// positions (from least significant bit) of M0..M11
	mpos := [12]uint{0, 1, 2, 3, 5, 6, 7, 9, 10, 11, 12, 13}
	var v uint16
	for i := uint(0); i < 12; i++ {
		if method&(1<<i) != 0 {
			v |= 1 << mpos[i]
		}
	}
	if class&1 != 0 {
		v |= 1 << 4
	}
	if class&2 != 0 {
		v |= 1 << 8
	}

	return v
}

// TypeRead is the inverse of TypeValue on the low 14 bits.
func TypeRead(v uint16) (class uint8, method uint16) {
	mpos := [12]uint{0, 1, 2, 3, 5, 6, 7, 9, 10, 11, 12, 13}
	for i := uint(0); i < 12; i++ {
		if v&(1<<mpos[i]) != 0 {
			method |= 1 << i
		}
	}
	if v&(1<<4) != 0 {
		class |= 1
	}
	if v&(1<<8) != 0 {
		class |= 2
	}

	return class, method
}

// EAttr is an attribute to encode.
type EAttr struct {
	Type  uint16
	Value []byte
}

// Encode renders the canonical wire form: zero padding, exact length.
func Encode(method uint16, class uint8, tid [12]byte, attrs []EAttr) []byte {
	return EncodeWith(TypeValue(method, class), tid, attrs, nil, nil)
}

// EncodeWith renders a message with explicit type bits, optional padding bytes
// (consumed in order, zero when exhausted) and optional trailing bytes after
// the declared length.
func EncodeWith(typeRaw uint16, tid [12]byte, attrs []EAttr, padBytes, trailing []byte) []byte {
	n := 0
	for _, a := range attrs {
		n += 4 + Pad(len(a.Value))
	}
	out := make([]byte, 20, 20+n+len(trailing))
	out[0], out[1] = byte(typeRaw>>8), byte(typeRaw)
	out[2], out[3] = byte(n>>8), byte(n)
	out[4], out[5], out[6], out[7] = 0x21, 0x12, 0xA4, 0x42
	copy(out[8:], tid[:])
	pi := 0
	for _, a := range attrs {
		l := len(a.Value)
		out = append(out, byte(a.Type>>8), byte(a.Type), byte(l>>8), byte(l))
		out = append(out, a.Value...)
		for i := l; i < Pad(l); i++ {
			var p byte
			if pi < len(padBytes) {
				p = padBytes[pi]
				pi++
			}
			out = append(out, p)
		}
	}
	out = append(out, trailing...)

	return out
}

// PaddingZero reports whether every padding byte of a parsed message is zero.
func PaddingZero(b []byte, m Msg) bool {
	for _, a := range m.Attrs {
		for i := a.Off + a.Len; i < a.Off+Pad(a.Len); i++ {
			if b[20+i] != 0 {
				return false
			}
		}
	}

	return true
}
