package ref

import "errors"

// Address families of RFC 5389 section 15.1.
const (
	FamilyV4 = 0x01
	FamilyV6 = 0x02
)

// ErrBad is returned by reference decoders for values outside the RFC format.
var ErrBad = errors.New("ref: malformed attribute value")

// EncodeMapped renders MAPPED-ADDRESS style values (15.1): 0, family, port, address.
func EncodeMapped(ip []byte, port int) []byte {
	fam := byte(FamilyV4)
	if len(ip) == 16 {
		fam = FamilyV6
	}
	v := []byte{0, fam, byte(port >> 8), byte(port)}

	return append(v, ip...)
}

// DecodeMapped parses a MAPPED-ADDRESS style value.
func DecodeMapped(v []byte) (ip []byte, port int, err error) {
	if len(v) < 4 {
		return nil, 0, ErrBad
	}
	// "valid" means as an RFC encoder produces it: leading byte zero. RFC 5389
	// tells receivers to ignore that byte; whether a receiver tolerates a
	// non-zero one is not asserted by any property.
	switch {
	case v[0] == 0 && v[1] == FamilyV4 && len(v) == 8:
	case v[0] == 0 && v[1] == FamilyV6 && len(v) == 20:
	default:
		return nil, 0, ErrBad
	}

	return append([]byte(nil), v[4:]...), int(v[2])<<8 | int(v[3]), nil
}

// EncodeXor renders XOR-MAPPED-ADDRESS (15.2): port xor the 16 most significant
// cookie bits; IPv4 xor cookie; IPv6 xor cookie||transaction id.
func EncodeXor(ip []byte, port int, tid [12]byte) []byte {
	pad := append([]byte{0x21, 0x12, 0xA4, 0x42}, tid[:]...)
	fam := byte(FamilyV4)
	if len(ip) == 16 {
		fam = FamilyV6
	}
	xp := port ^ 0x2112
	v := []byte{0, fam, byte(xp >> 8), byte(xp)}
	for i, c := range ip {
		v = append(v, c^pad[i])
	}

	return v
}

// DecodeXor parses an XOR-MAPPED-ADDRESS value.
func DecodeXor(v []byte, tid [12]byte) (ip []byte, port int, err error) {
	if len(v) < 4 {
		return nil, 0, ErrBad
	}
	switch {
	case v[0] == 0 && v[1] == FamilyV4 && len(v) == 8:
	case v[0] == 0 && v[1] == FamilyV6 && len(v) == 20:
	default:
		return nil, 0, ErrBad
	}
	pad := append([]byte{0x21, 0x12, 0xA4, 0x42}, tid[:]...)
	for i, c := range v[4:] {
		ip = append(ip, c^pad[i])
	}

	return ip, (int(v[2])<<8 | int(v[3])) ^ 0x2112, nil
}

// EncodeErrorCode renders ERROR-CODE (15.6): 21 zero bits, 3-bit class,
// 8-bit number, reason phrase.
func EncodeErrorCode(code int, reason []byte) []byte {
	v := []byte{0, 0, byte(code/100) & 0x7, byte(code % 100)}

	return append(v, reason...)
}

// DecodeErrorCode parses ERROR-CODE.
func DecodeErrorCode(v []byte) (code int, reason []byte, err error) {
	if len(v) < 4 {
		return 0, nil, ErrBad
	}

	return int(v[2]&0x7)*100 + int(v[3]), v[4:], nil
}

// EncodeUnknown renders UNKNOWN-ATTRIBUTES (15.9): a list of 16-bit types.
func EncodeUnknown(types []uint16) []byte {
	v := make([]byte, 0, 2*len(types))
	for _, t := range types {
		v = append(v, byte(t>>8), byte(t))
	}

	return v
}

// DecodeUnknown parses UNKNOWN-ATTRIBUTES.
func DecodeUnknown(v []byte) ([]uint16, error) {
	if len(v)%2 != 0 {
		return nil, ErrBad
	}
	out := make([]uint16, 0, len(v)/2)
	for i := 0; i < len(v); i += 2 {
		out = append(out, uint16(v[i])<<8|uint16(v[i+1]))
	}

	return out, nil
}
