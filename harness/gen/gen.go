// Package gen holds the rapid generators and small-scope enumerators shared
// by the codec properties. It does not import pion/stun: everything here is
// plain bytes and reference structures.
package gen

import (
	"github.com/pion/stun/v3/verifharness/ref"
	"pgregory.net/rapid"
)

// KnownTypes are the attribute types with a typed getter/setter or a role in
// the checks, plus the legacy alias and a few edge values.
var KnownTypes = []uint16{
	0x0001, 0x0006, 0x0008, 0x0009, 0x000A, 0x0014, 0x0015, 0x0020, 0x8022, 0x8023, 0x8028, 0x802b, 0x802c,
	0x8020, 0x0000, 0xFFFF, 0x0024, 0x0025, 0x8029, 0x0012, 0x0016, 0x001C,
}

// AttrType draws an attribute type: mostly known ones, sometimes arbitrary.
func AttrType() *rapid.Generator[uint16] {
	return rapid.OneOf(
		rapid.SampledFrom(KnownTypes),
		rapid.SampledFrom(KnownTypes),
		rapid.Uint16(),
	)
}

// ValueLen draws a value length: boundary biased, every residue mod 4.
// max bounds the result.
func ValueLen(max int) *rapid.Generator[int] {
	return rapid.Custom(func(t *rapid.T) int {
		var n int
		switch rapid.IntRange(0, 19).Draw(t, "lenClass") {
		case 0, 1, 2, 3, 4, 5, 6, 7:
			n = rapid.IntRange(0, 9).Draw(t, "small")
		case 8, 9, 10:
			n = rapid.SampledFrom([]int{18, 19, 20, 21, 22, 23, 24}).Draw(t, "near20")
		case 11, 12:
			n = rapid.IntRange(10, 64).Draw(t, "mid")
		case 13, 14:
			n = rapid.SampledFrom([]int{127, 128, 129, 255, 256, 257, 511, 512, 513, 514, 515, 761, 762, 763, 764, 765}).Draw(t, "limit")
		case 15, 16:
			n = rapid.IntRange(65, 800).Draw(t, "text")
		case 17:
			n = rapid.IntRange(2990, 3030).Draw(t, "about3000")
		case 18:
			n = rapid.IntRange(800, 4000).Draw(t, "large")
		default:
			n = rapid.SampledFrom([]int{1499, 1500, 2047, 2048, 2049, 8191, 16384, 32767, 32768, 65531, 65532, 65533, 65534, 65535}).Draw(t, "huge")
		}
		if n > max {
			n = max - rapid.IntRange(0, 3).Draw(t, "clip")
			if n < 0 {
				n = 0
			}
		}

		return n
	})
}

// Bytes draws exactly n bytes; long values are filled from a short drawn
// pattern so that generation stays cheap and shrinks well.
func Bytes(t *rapid.T, n int, label string) []byte {
	if n <= 48 {
		return rapid.SliceOfN(rapid.Byte(), n, n).Draw(t, label)
	}
	pat := rapid.SliceOfN(rapid.Byte(), 1, 16).Draw(t, label+"Pat")
	out := make([]byte, n)
	for i := range out {
		out[i] = pat[i%len(pat)] + byte(i/len(pat))
	}

	return out
}

// TID draws a transaction id, biased to edge patterns.
func TID() *rapid.Generator[[12]byte] {
	return rapid.Custom(func(t *rapid.T) [12]byte {
		var id [12]byte
		switch rapid.IntRange(0, 5).Draw(t, "tidClass") {
		case 0:
		case 1:
			for i := range id {
				id[i] = 0xFF
			}
		default:
			copy(id[:], rapid.SliceOfN(rapid.Byte(), 12, 12).Draw(t, "tid"))
		}

		return id
	})
}

// TLVs draws 0..maxN attributes whose padded sizes sum to at most budget bytes.
func TLVs(t *rapid.T, maxN, budget int, label string) []ref.EAttr {
	n := rapid.IntRange(0, maxN).Draw(t, label+"N")
	out := make([]ref.EAttr, 0, n)
	for i := 0; i < n; i++ {
		room := budget - 4
		if room < 0 {
			break
		}
		l := ValueLen(room).Draw(t, label+"Len")
		a := ref.EAttr{Type: AttrType().Draw(t, label+"Type"), Value: Bytes(t, l, label+"Val")}
		out = append(out, a)
		budget -= 4 + ref.Pad(l)
	}

	return out
}

// Wire is a message with its non-canonical freedoms chosen independently.
type Wire struct {
	TypeRaw  uint16
	TID      [12]byte
	Attrs    []ref.EAttr
	Pad      []byte
	Trailing []byte
}

// Bytes renders the message.
func (w Wire) Bytes() []byte { return ref.EncodeWith(w.TypeRaw, w.TID, w.Attrs, w.Pad, w.Trailing) }

// WireMsg draws a decodable message. canonical=true forces zero padding, no
// trailing bytes and clear leading type bits.
func WireMsg(t *rapid.T, maxAttrs, budget int, canonical bool) Wire {
	w := Wire{TID: TID().Draw(t, "tid")}
	w.TypeRaw = rapid.Uint16().Draw(t, "typeRaw")
	if canonical || rapid.IntRange(0, 2).Draw(t, "topBits") > 0 {
		w.TypeRaw &= 0x3FFF
	}
	w.Attrs = TLVs(t, maxAttrs, budget, "attr")
	if !canonical {
		if rapid.Bool().Draw(t, "dirtyPad") {
			w.Pad = rapid.SliceOfN(rapid.Byte(), 0, 24).Draw(t, "pad")
		}
		if rapid.IntRange(0, 3).Draw(t, "hasTrailing") == 0 {
			w.Trailing = rapid.SliceOfN(rapid.Byte(), 1, 40).Draw(t, "trailing")
		}
	}

	return w
}

// Mutate applies 1..3 structure-aware mutations to a valid message: byte and
// bit flips, truncation, extension, splice, and edits of the header length and
// of attribute length fields (the operators that reach the decoder's guards).
func Mutate(t *rapid.T, valid []byte) []byte {
	b := append([]byte(nil), valid...)
	n := rapid.IntRange(1, 3).Draw(t, "mutations")
	for i := 0; i < n; i++ {
		m, ok := ref.Parse(b)
		op := rapid.IntRange(0, 9).Draw(t, "mutOp")
		switch {
		case op == 0 && len(b) > 0:
			p := rapid.IntRange(0, len(b)-1).Draw(t, "flipAt")
			b[p] ^= 1 << rapid.IntRange(0, 7).Draw(t, "bit")
		case op == 1 && len(b) > 0:
			p := rapid.IntRange(0, len(b)-1).Draw(t, "setAt")
			b[p] = rapid.Byte().Draw(t, "setTo")
		case op == 2 && len(b) > 0:
			b = b[:rapid.IntRange(0, len(b)-1).Draw(t, "truncTo")]
		case op == 3:
			b = append(b, rapid.SliceOfN(rapid.Byte(), 1, 12).Draw(t, "ext")...)
		case (op == 4 || op == 5) && len(b) >= 4:
			// header length edit
			cur := int(b[2])<<8 | int(b[3])
			nv := lenEdit(t, cur)
			b[2], b[3] = byte(nv>>8), byte(nv)
		case (op == 6 || op == 7 || op == 8) && ok && len(m.Attrs) > 0:
			a := m.Attrs[rapid.IntRange(0, len(m.Attrs)-1).Draw(t, "attrIdx")]
			nv := lenEdit(t, a.Len)
			b[20+a.Off-2], b[20+a.Off-1] = byte(nv>>8), byte(nv)
		case op == 9 && len(b) > 8:
			// splice: copy a window elsewhere
			from := rapid.IntRange(0, len(b)-4).Draw(t, "spFrom")
			to := rapid.IntRange(0, len(b)-4).Draw(t, "spTo")
			copy(b[to:to+4], append([]byte(nil), b[from:from+4]...))
		default:
			if len(b) > 0 {
				b[len(b)-1] ^= 0x80
			}
		}
	}

	return b
}

func lenEdit(t *rapid.T, cur int) int {
	switch rapid.IntRange(0, 5).Draw(t, "lenEdit") {
	case 0:
		return 0
	case 1:
		return 0xFFFF
	case 2:
		return (cur + rapid.IntRange(1, 4).Draw(t, "plus")) & 0xFFFF
	case 3:
		return (cur - rapid.IntRange(1, 4).Draw(t, "minus")) & 0xFFFF
	case 4:
		return rapid.SampledFrom([]int{0x7FFC, 0xFFFC, 0xFFFE, 0x8000, 4, 8}).Draw(t, "special")
	default:
		return rapid.IntRange(0, 0xFFFF).Draw(t, "any")
	}
}

// Arena places buf inside a larger poisoned array and returns a slice of it
// with exactly extraCap bytes of spare capacity. With extraCap == 0 any read
// past the message panics; with extraCap > 0 it reads poison.
func Arena(buf []byte, extraCap int, poison byte) []byte {
	s, _ := ArenaFull(buf, extraCap, poison)

	return s
}

// ArenaFull is Arena that also returns the whole backing array.
func ArenaFull(buf []byte, extraCap int, poison byte) (view, full []byte) {
	const lead = 8
	arr := make([]byte, lead+len(buf)+extraCap)
	for i := range arr {
		arr[i] = poison
	}
	copy(arr[lead:], buf)

	return arr[lead : lead+len(buf) : lead+len(buf)+extraCap], arr
}

// Shape is one point of the exhaustive length-structure space.
type Shape struct {
	BufLen   int   // total buffer length
	Declared int   // header length field
	Lens     []int // attribute length fields laid out consecutively over the buffer
}

// Render fills a shape with bytes: header with cookie, the length fields at
// their TLV positions, everything else from pool (indexed cyclically).
func (s Shape) Render(pool []byte) []byte {
	b := make([]byte, s.BufLen)
	pi := (s.BufLen*31 + s.Declared*7 + len(s.Lens)) % len(pool)
	for i := range b {
		b[i] = pool[pi%len(pool)]
		pi++
	}
	hdr := []byte{b0(pool), b1(pool), byte(s.Declared >> 8), byte(s.Declared), 0x21, 0x12, 0xA4, 0x42}
	copy(b, hdr) // truncated automatically when BufLen < 8
	pos := 20
	for _, l := range s.Lens {
		if pos+4 > len(b) {
			break
		}
		b[pos+2], b[pos+3] = byte(l>>8), byte(l)
		pos += 4 + ref.Pad(l)
	}

	return b
}

func b0(pool []byte) byte { return pool[0] & 0x3F }
func b1(pool []byte) byte { return pool[1] }

// Shapes enumerates every (buffer length, declared length, attribute length
// sequence) for body bound B and calls f for each; f returning false stops.
// Buffer lengths 0..20+B+4; declared 0..B+4 and {0x7FFC,0xFFFC,0xFFFF};
// each next length field from 0..room+4 and 0xFFFF where room is what is left
// of the buffer after the attribute header.
func Shapes(bound int, shard, nshards int, f func(Shape) bool) (count int64) {
	declared := make([]int, 0, bound+8)
	for d := 0; d <= bound+4; d++ {
		declared = append(declared, d)
	}
	declared = append(declared, 0x7FFC, 0xFFFC, 0xFFFF)
	var idx int64
	stop := false
	for n := 0; n <= 20+bound+4 && !stop; n++ {
		avail := n - 20
		seqs(avail, nil, func(lens []int) bool {
			for _, d := range declared {
				idx++
				if int(idx%int64(nshards)) != shard {
					continue
				}
				count++
				if !f(Shape{BufLen: n, Declared: d, Lens: append([]int(nil), lens...)}) {
					stop = true

					return false
				}
			}

			return true
		})
	}

	return count
}

// seqs enumerates attribute length sequences that fit over avail bytes.
func seqs(avail int, prefix []int, f func([]int) bool) bool {
	if avail < 4 {
		return f(prefix)
	}
	room := avail - 4
	// the sequence may also simply end here (no further header examined)
	cands := make([]int, 0, room+6)
	for l := 0; l <= room+4; l++ {
		cands = append(cands, l)
	}
	cands = append(cands, 0xFFFF)
	for _, l := range cands {
		next := append(prefix, l) //nolint:gocritic
		if ref.Pad(l) <= room {
			if !seqs(room-ref.Pad(l), next, f) {
				return false
			}
		} else if !f(next) {
			return false
		}
	}

	return true
}
