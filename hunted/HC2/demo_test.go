package stun

import "testing"

// RFC 7064: stunURI = scheme ":" host [ ":" port ] - no query component.
// ParseURI only rejects a stun/stuns query when url.ParseQuery yields at
// least one key, so queries made of separators only are accepted.
func TestDemoStunURIWithQueryAccepted(t *testing.T) {
	for _, s := range []string{
		"stun:example.org?&",
		"stuns:example.org?&&",
		"stun:example.org:3478?&",
		"stuns:[::1]:5349?&",
	} {
		if u, err := ParseURI(s); err == nil {
			t.Errorf("ParseURI(%q) accepted a %s URI that has a query: %+v", s, u.Scheme, *u)
		}
	}
}
