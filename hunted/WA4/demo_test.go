package stun

import (
	"io"
	"sync"
	"testing"
	"time"
)

// wa4Conn delivers each queued datagram together with a non-nil error, which
// io.Reader explicitly allows ("Callers should always process the n > 0 bytes
// returned before considering the error"); crypto/tls.Conn.Read does this when
// a close_notify alert directly follows the data.
type wa4Conn struct {
	in     chan []byte
	closed chan struct{}
	once   sync.Once
}

func (c *wa4Conn) Read(p []byte) (int, error) {
	select {
	case b := <-c.in:
		return copy(p, b), io.EOF
	case <-c.closed:
		return 0, io.EOF
	}
}
func (c *wa4Conn) Write(p []byte) (int, error) { return len(p), nil }
func (c *wa4Conn) Close() error {
	c.once.Do(func() { close(c.closed) })

	return nil
}

func TestWA4ReadDataWithError(t *testing.T) {
	conn := &wa4Conn{in: make(chan []byte), closed: make(chan struct{})}
	c, err := NewClient(conn, WithRTO(time.Hour))
	if err != nil {
		t.Fatal(err)
	}
	defer c.Close() //nolint:errcheck
	req := MustBuild(TransactionID, BindingRequest)
	res := MustBuild(NewTransactionIDSetter(req.TransactionID), BindingSuccess)
	got := make(chan Event, 1)
	if err = c.Start(req, func(e Event) { got <- Event{Error: e.Error} }); err != nil {
		t.Fatal(err)
	}
	select {
	case conn.in <- res.Raw:
	case <-time.After(5 * time.Second):
		t.Fatal("reader does not read")
	}
	select {
	case e := <-got:
		if e.Error != nil {
			t.Errorf("unexpected error %v", e.Error)
		}
	case <-time.After(2 * time.Second):
		t.Errorf("C12: response returned by Read together with io.EOF (n>0, err!=nil) was dropped; handler not invoked")
	}
}
