package stun

import (
	"errors"
	"testing"
	"time"
)

// NewAgent(nil) installs a no-op handler, SetHandler(nil) installs a nil func:
// the next event panics. In Close the panic happens with the agent mutex held,
// so the agent is locked for good afterwards.
func TestWA3SetHandlerNil(t *testing.T) {
	a := NewAgent(nil)
	id := NewTransactionID()
	if err := a.Start(id, time.Now().Add(time.Hour)); err != nil {
		t.Fatal(err)
	}
	if err := a.SetHandler(nil); err != nil {
		t.Fatalf("SetHandler(nil) = %v", err)
	}
	var stopErr error
	panicked := func() (p interface{}) {
		defer func() { p = recover() }()
		stopErr = a.Stop(id)

		return nil
	}()
	if panicked != nil {
		t.Errorf("C13: Stop of a registered ID after SetHandler(nil) panicked: %v", panicked)
	} else if stopErr != nil {
		t.Errorf("Stop = %v", stopErr)
	}

	// Same in Close, where the handler is called under the mutex.
	b := NewAgent(nil)
	_ = b.Start(id, time.Now().Add(time.Hour))
	_ = b.SetHandler(nil)
	func() {
		defer func() {
			if p := recover(); p != nil {
				t.Errorf("C13: Close with a remaining transaction after SetHandler(nil) panicked: %v", p)
			}
		}()
		_ = b.Close()
	}()
	done := make(chan error, 1)
	go func() { done <- b.Collect(time.Now()) }()
	select {
	case err := <-done:
		if err != nil && !errors.Is(err, ErrAgentClosed) {
			t.Errorf("Collect = %v", err)
		}
	case <-time.After(2 * time.Second):
		t.Errorf("C14: agent mutex left locked by the panic in Close; Collect blocks forever")
	}
}
