package stun

import (
	"testing"
	"time"
)

// C13: SetHandler is part of the call alphabet; NewAgent(nil) documents that nil
// means NoopHandler, but SetHandler(nil) stores nil and the next emitting call panics
// (Close panics while holding the mutex, leaving the agent locked forever).
func TestHuntSetHandlerNilPanics(t *testing.T) {
	for _, op := range []string{"stop", "process", "collect", "close"} {
		func() {
			defer func() {
				if r := recover(); r != nil {
					t.Errorf("%s after SetHandler(nil): panic: %v", op, r)
				}
			}()
			a := NewAgent(nil)
			id := NewTransactionID()
			if err := a.Start(id, time.Unix(1, 0)); err != nil {
				t.Fatal(err)
			}
			if err := a.SetHandler(nil); err != nil {
				t.Fatal(err)
			}
			var err error
			switch op {
			case "stop":
				err = a.Stop(id)
			case "process":
				err = a.Process(&Message{TransactionID: id})
			case "collect":
				err = a.Collect(time.Unix(2, 0))
			case "close":
				err = a.Close()
			}
			if err != nil {
				t.Errorf("%s: %v", op, err)
			}
		}()
	}
}
