package stun

import (
	"bytes"
	"testing"
)

// Decode exposes each attribute value as m.Raw[off:off+len] without limiting
// the capacity, so the "view" reaches over the padding, all following
// attributes and the spare buffer. Appending to a decoded value (directly or
// via a typed getter that aliases it, e.g. Username.GetFrom) silently
// overwrites the next attribute inside the message.
func TestDemoDecodedValueCapacityOverlapsNextAttribute(t *testing.T) {
	src := MustBuild(BindingRequest, TransactionID, NewUsername("abcd"), NewRealm("example.org"))
	m := new(Message)
	if err := Decode(src.Raw, m); err != nil {
		t.Fatal(err)
	}
	for i, a := range m.Attributes {
		if cap(a.Value) != len(a.Value) {
			t.Errorf("attribute %d: value has %d declared bytes but the exposed view can be extended to %d bytes", i, len(a.Value), cap(a.Value))
		}
	}
	before := append([]byte(nil), m.Raw...)
	var u Username
	if err := u.GetFrom(m); err != nil {
		t.Fatal(err)
	}
	_ = append(u, "@example.org"...) // caller extends its own copy of the name
	if !bytes.Equal(before, m.Raw) {
		var r Realm
		_ = r.GetFrom(m)
		t.Errorf("appending to the decoded USERNAME changed the message: REALM header/value now %x, realm=%q", m.Raw[28:44], r)
	}
}
