package stun

import (
	"encoding/binary"
	"hash/crc32"
	"testing"
)

// Decode tolerates bytes after the declared length and keeps them in m.Raw.
// Fingerprint.AddTo computes the CRC over the whole m.Raw, i.e. including those
// trailing bytes, although the subsequent Add cuts them off. The emitted
// FINGERPRINT is therefore wrong and the message fails its own check.
func TestDemoFingerprintAfterTrailingBytes(t *testing.T) {
	src, err := Build(BindingRequest, NewTransactionIDSetter([12]byte{1, 2, 3}), NewSoftware("ab"))
	if err != nil {
		t.Fatal(err)
	}
	wire := append(append([]byte{}, src.Raw...), 0xde, 0xad, 0xbe, 0xef) // 4 bytes behind the declared length

	m := new(Message)
	if err = Decode(wire, m); err != nil {
		t.Fatal(err)
	}
	if err = Fingerprint.AddTo(m); err != nil {
		t.Fatal(err)
	}
	raw := m.Raw
	if len(raw) != 20+int(binary.BigEndian.Uint16(raw[2:4])) {
		t.Fatalf("unexpected raw size %d", len(raw))
	}
	last := m.Attributes[len(m.Attributes)-1]
	if last.Type != AttrFingerprint || len(last.Value) != 4 {
		t.Fatal("last attribute is not FINGERPRINT")
	}
	want := crc32.ChecksumIEEE(raw[:len(raw)-8]) ^ 0x5354554e
	if got := binary.BigEndian.Uint32(last.Value); got != want {
		t.Errorf("FINGERPRINT value %08x, RFC 5389 15.5 value of preceding bytes %08x", got, want)
	}
	if err = Fingerprint.Check(m); err != nil {
		t.Errorf("message fingerprinted by the setter fails the check: %v", err)
	}
	d := new(Message)
	if err = Decode(raw, d); err != nil {
		t.Fatal(err)
	}
	if err = Fingerprint.Check(d); err != nil {
		t.Errorf("re-decoded fingerprinted message fails the check: %v", err)
	}
}
