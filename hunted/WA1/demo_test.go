package stun

import (
	"errors"
	"io"
	"sync"
	"testing"
	"time"
)

// wa1Conn is an in-memory datagram connection. Writes are recorded, Read
// returns the datagrams pushed into in and fails with io.EOF after Close.
type wa1Conn struct {
	in     chan []byte
	closed chan struct{}
	once   sync.Once
	mux    sync.Mutex
	writes int
}

func (c *wa1Conn) Read(p []byte) (int, error) {
	select {
	case b := <-c.in:
		return copy(p, b), nil
	case <-c.closed:
		return 0, io.EOF
	}
}

func (c *wa1Conn) Write(p []byte) (int, error) {
	c.mux.Lock()
	c.writes++
	c.mux.Unlock()

	return len(p), nil
}

func (c *wa1Conn) Close() error {
	c.once.Do(func() { close(c.closed) })

	return nil
}

// wa1Collector is a Collector driven by the test.
type wa1Collector struct {
	f func(time.Time)
}

func (c *wa1Collector) Start(_ time.Duration, f func(time.Time)) error {
	c.f = f

	return nil
}

func (c *wa1Collector) Close() error { return nil }

// wa1Clock is a Clock. Now returns the current (manual) time; a hook can be
// armed that runs inside one Now call, i.e. the calling goroutine is
// descheduled at that point while other goroutines make progress.
type wa1Clock struct {
	mux  sync.Mutex
	now  time.Time
	hook func()
}

func (c *wa1Clock) Now() time.Time {
	c.mux.Lock()
	h := c.hook
	c.hook = nil
	c.mux.Unlock()
	if h != nil {
		h()
	}
	c.mux.Lock()
	defer c.mux.Unlock()

	return c.now
}

func (c *wa1Clock) add(d time.Duration) time.Time {
	c.mux.Lock()
	defer c.mux.Unlock()
	c.now = c.now.Add(d)

	return c.now
}

// History: Start(X); clock passes the first deadline; collect -> the client
// begins the 1st retransmission of X; while that retransmission is being
// prepared (the collector goroutine is inside Clock.Now) the response for X
// arrives and is processed by the reader. X is in flight the whole time (it
// still has 6 retransmissions to go), so C12 demands that the response reaches
// the handler of X and not the fallback handler.
func TestWA1ResponseDuringRetransmission(t *testing.T) {
	conn := &wa1Conn{in: make(chan []byte), closed: make(chan struct{})}
	coll := &wa1Collector{}
	clock := &wa1Clock{now: time.Unix(1000, 0)}
	const rto = time.Second

	fallback := make(chan Event, 16)
	got := make(chan error, 16)

	c, err := NewClient(conn,
		WithClock(clock), WithCollector(coll), WithRTO(rto),
		WithHandler(func(e Event) { fallback <- Event{TransactionID: e.TransactionID, Error: e.Error} }),
	)
	if err != nil {
		t.Fatal(err)
	}
	defer c.Close() //nolint:errcheck

	req := MustBuild(TransactionID, BindingRequest)
	res := MustBuild(NewTransactionIDSetter(req.TransactionID), BindingSuccess)

	if err = c.Start(req, func(e Event) { got <- e.Error }); err != nil {
		t.Fatal(err)
	}

	// The response shows up while the client prepares the retransmission.
	toFallback := false
	clock.mux.Lock()
	clock.hook = func() {
		conn.in <- res.Raw
		select {
		case e := <-fallback:
			if e.TransactionID == req.TransactionID && e.Error == nil {
				toFallback = true
			}
		case e := <-got:
			got <- e
		case <-time.After(5 * time.Second):
		}
	}
	clock.mux.Unlock()

	// First deadline passed: tick.
	clock.mux.Lock()
	clock.now = clock.now.Add(rto + time.Millisecond)
	now := clock.now
	clock.mux.Unlock()
	coll.f(now)

	if toFallback {
		t.Errorf("C12: response with the ID of an in-flight transaction was given to the fallback handler")
	}

	// Run the remaining retransmissions to see how the transaction ends.
	var outcome error
	done := false
	for i := 0; i < 12 && !done; i++ {
		select {
		case outcome = <-got:
			done = true
		default:
			coll.f(clock.add(20 * rto))
		}
	}
	if !done {
		select {
		case outcome = <-got:
		case <-time.After(5 * time.Second):
			t.Fatal("handler never invoked")
		}
	}
	if errors.Is(outcome, ErrTransactionTimeOut) {
		t.Errorf("C12: transaction timed out although its response was received while it was in flight")
	} else if outcome != nil {
		t.Errorf("unexpected outcome: %v", outcome)
	}
}
