package stun

import "testing"

// C03: Add called from inside a ForEach callback. ForEach narrows
// m.Attributes to attrs[i:] for the callback and restores the list it saved
// before the loop, so the attribute appended by Add is in Raw (and counted in
// Length and in the header) but is dropped from m.Attributes.
func TestDemoForEachAddLosesAttribute(t *testing.T) {
	m := MustBuild(BindingRequest, NewUsername("aaaa"), NewSoftware("bbbb"))
	if err := m.ForEach(AttrUsername, func(mm *Message) error {
		mm.Add(AttrRealm, []byte("cccc"))

		return nil
	}); err != nil {
		t.Fatal(err)
	}
	d := new(Message)
	if err := Decode(m.Raw, d); err != nil {
		t.Fatal(err)
	}
	if len(d.Attributes) != len(m.Attributes) {
		t.Errorf("wire has %d attributes (%v), struct has %d (%v)", len(d.Attributes), d.Attributes, len(m.Attributes), m.Attributes)
	}
	if !m.Equal(d) {
		t.Errorf("m is not Equal to the decode of its own Raw")
	}
}
