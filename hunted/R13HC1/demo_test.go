package stun

import "testing"

// C17: unknown transports and repeated/extra query parameters must be rejected.
func TestHuntRepeatedTransportAccepted(t *testing.T) {
	for _, s := range []string{
		"turn:example.org?transport=udp&transport=bogus",
		"turns:example.org?transport=tcp&transport=sctp",
		"turn:example.org?transport=udp&transport=tcp",
	} {
		if u, err := ParseURI(s); err == nil {
			t.Errorf("ParseURI(%q) accepted as %v; want an error (unknown/conflicting transport value)", s, u)
		}
	}
}
