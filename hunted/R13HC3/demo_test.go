package stun

import "testing"

// C17 (borderline): RFC 7064/7065 port = *DIGIT; signed ports are accepted.
func TestHuntSignedPortAccepted(t *testing.T) {
	for _, s := range []string{"stun:example.org:+80", "stun:example.org:-0", "turns:[::1]:+5349?transport=tcp"} {
		if u, err := ParseURI(s); err == nil {
			t.Errorf("ParseURI(%q) accepted as %v; want ErrPort", s, u)
		}
	}
}
