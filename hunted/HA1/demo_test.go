package stun

// C10/C12: completion ownership in handleAgentCallback is decided by ID
// (c.delete(id)), not by transaction identity. A retransmission Write of a
// transaction that has meanwhile been completed by its response fails AFTER the
// same ID has been started again: the failing path unregisters and stops the
// NEW transaction and reports the old write error through a stale (already
// released) pooled clientTransaction pointer.

import (
	"errors"
	"io"
	"sync"
	"testing"
	"time"
)

type h9aClock struct {
	mu sync.Mutex
	t  time.Time
}

func (c *h9aClock) Now() time.Time {
	c.mu.Lock()
	defer c.mu.Unlock()

	return c.t
}

func (c *h9aClock) add(d time.Duration) time.Time {
	c.mu.Lock()
	defer c.mu.Unlock()
	c.t = c.t.Add(d)

	return c.t
}

// h9aCollector is ticked by hand; Close waits for a running tick.
type h9aCollector struct {
	mu sync.Mutex
	f  func(time.Time)
}

func (c *h9aCollector) Start(_ time.Duration, f func(time.Time)) error {
	c.f = f

	return nil
}

func (c *h9aCollector) tick(t time.Time) {
	c.mu.Lock()
	defer c.mu.Unlock()
	if c.f != nil {
		c.f(t)
	}
}

func (c *h9aCollector) Close() error {
	c.mu.Lock()
	c.f = nil
	c.mu.Unlock()

	return nil
}

// h9aConn parks the parkOn-th Write until released (with the error to return).
type h9aConn struct {
	mu      sync.Mutex
	writes  int
	parkOn  int
	parked  chan struct{}
	release chan error
	reads   chan []byte
	closed  chan struct{}
	once    sync.Once
}

func (c *h9aConn) Write(b []byte) (int, error) {
	c.mu.Lock()
	c.writes++
	n := c.writes
	c.mu.Unlock()
	if n == c.parkOn {
		close(c.parked)
		if err := <-c.release; err != nil {
			return 0, err
		}
	}

	return len(b), nil
}

func (c *h9aConn) Read(b []byte) (int, error) {
	select {
	case d := <-c.reads:
		return copy(b, d), nil
	case <-c.closed:
		return 0, io.EOF
	}
}

func (c *h9aConn) Close() error {
	c.once.Do(func() { close(c.closed) })

	return nil
}

func TestHunt9StaleRetransmitWriteErrorHitsReusedID(t *testing.T) {
	conn := &h9aConn{
		parkOn:  2,
		parked:  make(chan struct{}),
		release: make(chan error),
		reads:   make(chan []byte),
		closed:  make(chan struct{}),
	}
	clk := &h9aClock{t: time.Unix(1000, 0)}
	coll := &h9aCollector{}
	c, err := NewClient(conn, WithClock(clk), WithCollector(coll), WithRTO(time.Second))
	if err != nil {
		t.Fatal(err)
	}
	id := [TransactionIDSize]byte{1, 2, 3, 4, 5, 6, 7, 8, 9, 10, 11, 12}
	req := MustBuild(NewTransactionIDSetter(id), BindingRequest)
	res := MustBuild(NewTransactionIDSetter(id), BindingSuccess)

	type outcome struct {
		hasMsg bool
		err    error
	}
	h1 := make(chan outcome, 8)
	h2 := make(chan outcome, 8)
	mk := func(ch chan outcome) Handler {
		return func(e Event) { ch <- outcome{hasMsg: e.Message != nil, err: e.Error} }
	}

	// 1. first transaction with this id; write #1
	if err = c.Start(req, mk(h1)); err != nil {
		t.Fatal(err)
	}
	// 2. first deadline passes; the tick retransmits and parks inside write #2
	tickDone := make(chan struct{})
	now := clk.add(1500 * time.Millisecond)
	go func() { coll.tick(now); close(tickDone) }()
	select {
	case <-conn.parked:
	case <-time.After(5 * time.Second):
		t.Fatal("setup: retransmission write not reached")
	}
	// 3. the response arrives: the first transaction completes
	conn.reads <- res.Raw
	select {
	case o := <-h1:
		if !o.hasMsg || o.err != nil {
			t.Fatalf("setup: first handler got %+v", o)
		}
	case <-time.After(5 * time.Second):
		t.Fatal("setup: first handler not called")
	}
	// 4. the id is used again, after completion; write #3 succeeds
	if err = c.Start(req, mk(h2)); err != nil {
		t.Fatalf("second Start: %v", err)
	}
	// 5. the old retransmission write (#2) now fails
	conn.release <- errors.New("stale retransmission write failed")
	select {
	case <-tickDone:
	case <-time.After(5 * time.Second):
		t.Fatal("tick did not finish")
	}
	// 6. the response to the second transaction arrives while it is in flight
	select {
	case conn.reads <- res.Raw:
	case <-time.After(5 * time.Second):
		t.Fatal("reader gone")
	}
	var got []outcome
	select {
	case o := <-h2:
		got = append(got, o)
	case <-time.After(2 * time.Second):
	}
	if err = c.Close(); err != nil {
		t.Fatalf("Close: %v", err)
	}
	for len(h2) > 0 {
		got = append(got, <-h2)
	}
	for len(h1) > 0 {
		t.Errorf("first handler invoked a second time: %+v", <-h1)
	}
	if len(got) != 1 {
		t.Fatalf("second handler invoked %d times (want exactly once): %+v", len(got), got)
	}
	if !got[0].hasMsg || got[0].err != nil {
		t.Fatalf("second handler did not get its response but {message:%v error:%v} "+
			"(all writes of the second transaction succeeded)", got[0].hasMsg, got[0].err)
	}
}
