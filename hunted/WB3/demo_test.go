package stun

import "testing"

// parseProto only looks at the first value of the "transport" key
// (url.Values.Get) and counts keys, not values, so a repeated transport
// parameter - even one naming an unknown transport - is accepted.
func TestDemoRepeatedTransport(t *testing.T) {
	for _, s := range []string{
		"turn:example.org?transport=udp&transport=bogus",
		"turns:example.org:5349?transport=tcp&transport=sctp",
		"turn:example.org?transport=tcp&transport=udp",
	} {
		if u, err := ParseURI(s); err == nil {
			t.Errorf("ParseURI(%q) accepted as %s", s, u)
		}
	}
}
