package stun

import (
	"net"
	"sync"
	"testing"
	"time"

	"github.com/pion/transport/v3"
)

// A minimal injected network: it knows the host name "turn.test.invalid"
// (which, by RFC 6761, no real resolver can ever resolve) and hands out
// in-memory connections.
type demoConn struct {
	closed chan struct{}
	once   sync.Once
	raddr  net.Addr
}

func (c *demoConn) Read([]byte) (int, error)         { <-c.closed; return 0, net.ErrClosed }
func (c *demoConn) Write(b []byte) (int, error)      { return len(b), nil }
func (c *demoConn) Close() error                     { c.once.Do(func() { close(c.closed) }); return nil }
func (c *demoConn) LocalAddr() net.Addr              { return &net.UDPAddr{IP: net.IPv4(10, 0, 0, 2), Port: 1} }
func (c *demoConn) RemoteAddr() net.Addr             { return c.raddr }
func (c *demoConn) SetDeadline(time.Time) error      { return nil }
func (c *demoConn) SetReadDeadline(time.Time) error  { return nil }
func (c *demoConn) SetWriteDeadline(time.Time) error { return nil }

type demoUDPConn struct {
	transport.UDPConn // unused methods
	c                 *demoConn
}

func (u demoUDPConn) Read(b []byte) (int, error)  { return u.c.Read(b) }
func (u demoUDPConn) Write(b []byte) (int, error) { return u.c.Write(b) }
func (u demoUDPConn) ReadFrom(b []byte) (int, net.Addr, error) {
	n, err := u.c.Read(b)

	return n, u.c.raddr, err
}
func (u demoUDPConn) WriteTo(b []byte, _ net.Addr) (int, error) { return u.c.Write(b) }
func (u demoUDPConn) Close() error                              { return u.c.Close() }
func (u demoUDPConn) LocalAddr() net.Addr                       { return u.c.LocalAddr() }
func (u demoUDPConn) RemoteAddr() net.Addr                      { return u.c.RemoteAddr() }
func (u demoUDPConn) SetDeadline(time.Time) error               { return nil }
func (u demoUDPConn) SetReadDeadline(time.Time) error           { return nil }
func (u demoUDPConn) SetWriteDeadline(time.Time) error          { return nil }

type demoNet struct {
	transport.Net // unused methods
	mu            sync.Mutex
	calls         []string
	conns         []*demoConn
}

const demoHost = "turn.test.invalid"

func (n *demoNet) note(s string, c *demoConn) {
	n.mu.Lock()
	n.calls = append(n.calls, s)
	if c != nil {
		n.conns = append(n.conns, c)
	}
	n.mu.Unlock()
}

func (n *demoNet) ResolveUDPAddr(network, address string) (*net.UDPAddr, error) {
	n.note("ResolveUDPAddr "+network+" "+address, nil)
	host, port, err := net.SplitHostPort(address)
	if err != nil {
		return nil, err
	}
	if host == demoHost {
		host = "10.0.0.1"
	}

	return net.ResolveUDPAddr(network, net.JoinHostPort(host, port))
}

func (n *demoNet) Dial(network, address string) (net.Conn, error) {
	c := &demoConn{closed: make(chan struct{}), raddr: &net.TCPAddr{IP: net.IPv4(10, 0, 0, 1), Port: 5349}}
	n.note("Dial "+network+" "+address, c)

	return c, nil
}

func (n *demoNet) DialUDP(network string, _, raddr *net.UDPAddr) (transport.UDPConn, error) {
	c := &demoConn{closed: make(chan struct{}), raddr: raddr}
	n.note("DialUDP "+network+" "+raddr.String(), c)

	return demoUDPConn{c: c}, nil
}

// For every transport of a parsed URI, DialURI with an injected network must
// reach the named server through that network. The three other transports
// hand "host:port" to the injected Dial; the DTLS transport fails before it
// asks the injected network anything, because it resolves the host name with
// the operating system's resolver.
func TestDemoDialURIInjectedNet(t *testing.T) {
	for _, raw := range []string{
		"turn:" + demoHost + "?transport=udp",
		"turn:" + demoHost + "?transport=tcp",
		"turns:" + demoHost + "?transport=tcp",
		"turns:" + demoHost + "?transport=udp",
	} {
		u, err := ParseURI(raw)
		if err != nil {
			t.Fatalf("%s: %v", raw, err)
		}
		nw := &demoNet{}
		c, err := DialURI(u, &DialConfig{Net: nw})
		nw.mu.Lock()
		calls := append([]string(nil), nw.calls...)
		conns := append([]*demoConn(nil), nw.conns...)
		nw.mu.Unlock()
		if err != nil {
			t.Errorf("%s: DialURI failed: %v (calls made on the injected network: %v)", raw, err, calls)

			continue
		}
		if len(conns) != 1 {
			t.Errorf("%s: %d connections dialled on the injected network: %v", raw, len(conns), calls)
		}
		t.Logf("%s: ok, injected network saw %v", raw, calls)
		for _, cn := range conns {
			_ = cn.Close()
		}
		_ = c.Close()
	}
}
