package stun

import (
	"errors"
	"io"
	"math/rand"
	"sync"
	"sync/atomic"
	"testing"
	"time"
)

type wa2Conn struct {
	in     chan []byte
	closed chan struct{}
	once   sync.Once
	mux    sync.Mutex
	writes int
}

func (c *wa2Conn) Read(p []byte) (int, error) {
	select {
	case b := <-c.in:
		return copy(p, b), nil
	case <-c.closed:
		return 0, io.EOF
	}
}

func (c *wa2Conn) Write(p []byte) (int, error) {
	c.mux.Lock()
	c.writes++
	c.mux.Unlock()

	return len(p), nil
}

func (c *wa2Conn) written() int {
	c.mux.Lock()
	defer c.mux.Unlock()

	return c.writes
}

func (c *wa2Conn) Close() error {
	c.once.Do(func() { close(c.closed) })

	return nil
}

type wa2Collector struct{ f func(time.Time) }

func (c *wa2Collector) Start(_ time.Duration, f func(time.Time)) error {
	c.f = f

	return nil
}
func (c *wa2Collector) Close() error { return nil }

type wa2Clock struct {
	mux sync.Mutex
	now time.Time
}

func (c *wa2Clock) Now() time.Time {
	c.mux.Lock()
	defer c.mux.Unlock()

	return c.now
}

func (c *wa2Clock) add(d time.Duration) time.Time {
	c.mux.Lock()
	defer c.mux.Unlock()
	c.now = c.now.Add(d)

	return c.now
}

// wa2Agent is the library's Agent; the only addition is that one Start call
// can be made slow (hook runs before it is forwarded) or be refused.
type wa2Agent struct {
	*Agent
	mux    sync.Mutex
	hook   func()
	refuse error
}

func (a *wa2Agent) Start(id [TransactionIDSize]byte, deadline time.Time) error {
	a.mux.Lock()
	h, r := a.hook, a.refuse
	a.hook, a.refuse = nil, nil
	a.mux.Unlock()
	if r != nil {
		return r
	}
	if h != nil {
		h()
	}

	return a.Agent.Start(id, deadline)
}

// History (library Agent, only slowed down at one point):
//
//	Start(X,h1); clock passes deadline; collect -> retransmission #1 of X: the
//	transaction is registered again in the client table, and before the agent
//	timer is re-armed the response for X is received -> h1(response), X done.
//	The retransmission path then arms the agent timer for the finished X.
//	Start(X,h2) (X is not in flight any more) -> returns ErrTransactionExists,
//	but leaves h2 registered in the client table; the next ticks retransmit the
//	request whose Start failed and finally invoke h2.
func TestWA2StartErrorThenHandlerInvoked(t *testing.T) {
	conn := &wa2Conn{in: make(chan []byte), closed: make(chan struct{})}
	coll := &wa2Collector{}
	clock := &wa2Clock{now: time.Unix(1000, 0)}
	agent := &wa2Agent{Agent: NewAgent(nil)}
	const rto = time.Second

	c, err := NewClient(conn, WithClock(clock), WithCollector(coll), WithRTO(rto), WithAgent(agent))
	if err != nil {
		t.Fatal(err)
	}
	defer c.Close() //nolint:errcheck

	req := MustBuild(TransactionID, BindingRequest)
	res := MustBuild(NewTransactionIDSetter(req.TransactionID), BindingSuccess)

	got1 := make(chan error, 4)
	if err = c.Start(req, func(e Event) { got1 <- e.Error }); err != nil {
		t.Fatal(err)
	}

	var first error = errors.New("h1 not invoked")
	agent.mux.Lock()
	agent.hook = func() {
		conn.in <- res.Raw
		select {
		case first = <-got1:
		case <-time.After(5 * time.Second):
		}
	}
	agent.mux.Unlock()
	coll.f(clock.add(rto + time.Millisecond))
	if first != nil {
		t.Fatalf("setup: first transaction should have completed with its response, got %v", first)
	}

	// X is complete. Start a new transaction with the same ID.
	got2 := make(chan error, 4)
	req2 := MustBuild(NewTransactionIDSetter(req.TransactionID), BindingRequest)
	before := conn.written()
	startErr := c.Start(req2, func(e Event) { got2 <- e.Error })
	if startErr == nil {
		t.Skip("Start succeeded; nothing to show")
	}
	t.Logf("second Start returned error: %v", startErr)

	invoked := false
	var outcome error
	for i := 0; i < 12 && !invoked; i++ {
		coll.f(clock.add(20 * rto))
		select {
		case outcome = <-got2:
			invoked = true
		default:
		}
	}
	if w := conn.written() - before; w != 0 {
		t.Errorf("C10/C11: %d writes for a request whose Start returned an error", w)
	}
	if invoked {
		t.Errorf("C10: Start returned %q but the handler was invoked afterwards (with %v)", startErr, outcome)
	}
}

// Same defect with an agent that refuses one Start (ClientAgent.Start may
// return an error): Start reports the error but the handler stays registered in
// the client table, so a datagram carrying that ID invokes it.
func TestWA2AgentRefusesStart(t *testing.T) {
	conn := &wa2Conn{in: make(chan []byte), closed: make(chan struct{})}
	coll := &wa2Collector{}
	clock := &wa2Clock{now: time.Unix(1000, 0)}
	errRefused := errors.New("agent: too many transactions")
	agent := &wa2Agent{Agent: NewAgent(nil), refuse: errRefused}

	c, err := NewClient(conn, WithClock(clock), WithCollector(coll), WithAgent(agent))
	if err != nil {
		t.Fatal(err)
	}
	defer c.Close() //nolint:errcheck

	req := MustBuild(TransactionID, BindingRequest)
	res := MustBuild(NewTransactionIDSetter(req.TransactionID), BindingSuccess)
	got := make(chan error, 4)
	startErr := c.Start(req, func(e Event) { got <- e.Error })
	if !errors.Is(startErr, errRefused) {
		t.Fatalf("setup: want refused Start, got %v", startErr)
	}
	if conn.written() != 0 {
		t.Fatalf("setup: request written")
	}
	conn.in <- res.Raw
	select {
	case e := <-got:
		t.Errorf("C10: Start returned %q but the handler was invoked afterwards (error=%v)", startErr, e)
	case <-time.After(500 * time.Millisecond):
	}
}

// wa2nConn answers every written request with one success response carrying
// the same transaction ID (so a retransmitted request is answered twice, as a
// real STUN server does); a third of the answers is delayed by up to 3 RTO.
type wa2nConn struct {
	in     chan []byte
	closed chan struct{}
	once   sync.Once
}

func (c *wa2nConn) Read(p []byte) (int, error) {
	select {
	case b := <-c.in:
		return copy(p, b), nil
	case <-c.closed:
		return 0, io.EOF
	}
}

func (c *wa2nConn) Write(p []byte) (int, error) {
	m := new(Message)
	if err := Decode(p, m); err != nil {
		return len(p), nil
	}
	res := MustBuild(NewTransactionIDSetter(m.TransactionID), BindingSuccess)
	go func() {
		if rand.Intn(3) == 0 { // network jitter: some answers are late
			time.Sleep(time.Duration(rand.Intn(3000)) * time.Microsecond)
		}
		select {
		case c.in <- res.Raw:
		case <-c.closed:
		}
	}()

	return len(p), nil
}

func (c *wa2nConn) Close() error {
	c.once.Do(func() { close(c.closed) })

	return nil
}

// No custom agent, clock or collector: 8 goroutines, each running strictly
// sequential transactions (the next Start is issued only after the handler of
// the previous one has run) that reuse the goroutine's own transaction ID.
func TestWA2NaturalSequentialIDReuse(t *testing.T) {
	deadline := time.Now().Add(15 * time.Second)
	var failedStarts, invokedAfterError, hangs int64
	for round := 0; round < 200 && time.Now().Before(deadline) && atomic.LoadInt64(&invokedAfterError) == 0; round++ {
		conn := &wa2nConn{in: make(chan []byte), closed: make(chan struct{})}
		c, err := NewClient(conn, WithRTO(time.Millisecond), WithTimeoutRate(200*time.Microsecond))
		if err != nil {
			t.Fatal(err)
		}
		var wg sync.WaitGroup
		for g := 0; g < 8; g++ {
			wg.Add(1)
			go func() {
				defer wg.Done()
				id := NewTransactionID()
				var failed []*int32
				for i := 0; i < 300; i++ {
					req := MustBuild(NewTransactionIDSetter(id), BindingRequest)
					calls := new(int32)
					done := make(chan struct{}, 8)
					startErr := c.Start(req, func(Event) {
						atomic.AddInt32(calls, 1)
						done <- struct{}{}
					})
					if startErr != nil {
						atomic.AddInt64(&failedStarts, 1)
						failed = append(failed, calls)
						time.Sleep(3 * time.Millisecond)

						continue
					}
					select {
					case <-done:
					case <-time.After(5 * time.Second):
						atomic.AddInt64(&hangs, 1)

						return
					}
				}
				time.Sleep(20 * time.Millisecond)
				for _, n := range failed {
					if atomic.LoadInt32(n) != 0 {
						atomic.AddInt64(&invokedAfterError, 1)
					}
				}
			}()
		}
		wg.Wait()
		_ = c.Close()
	}
	t.Logf("failed Starts=%d handlersInvokedAfterError=%d hangs=%d", failedStarts, invokedAfterError, hangs)
	if failedStarts != 0 {
		t.Errorf("C10: %d Start calls of strictly sequential transactions failed (ErrTransactionExists from a stale agent entry)", failedStarts)
	}
	if invokedAfterError != 0 {
		t.Errorf("C10: %d handlers were invoked although their Start had returned an error", invokedAfterError)
	}
	if hangs != 0 {
		t.Errorf("C10: %d handlers never invoked", hangs)
	}
}
