package stun

import (
	"bytes"
	stdhmac "crypto/hmac"
	"crypto/sha1"
	"encoding/binary"
	"testing"
)

// Decode tolerates bytes after the declared length and keeps them in m.Raw.
// MessageIntegrity.AddTo feeds the whole m.Raw - trailing bytes included - to
// HMAC, although the subsequent Add cuts them off. The emitted MAC is wrong and
// the message does not verify under the key it was signed with.
func TestDemoIntegrityAfterTrailingBytes(t *testing.T) {
	src, err := Build(BindingRequest, NewTransactionIDSetter([12]byte{1, 2, 3}), NewUsername("user"))
	if err != nil {
		t.Fatal(err)
	}
	wire := append(append([]byte{}, src.Raw...), 0xde, 0xad, 0xbe, 0xef) // 4 bytes behind the declared length

	m := new(Message)
	if err = Decode(wire, m); err != nil {
		t.Fatal(err)
	}
	key := NewShortTermIntegrity("secret")
	if err = key.AddTo(m); err != nil {
		t.Fatal(err)
	}
	raw := m.Raw
	if len(raw) != 20+int(binary.BigEndian.Uint16(raw[2:4])) {
		t.Fatalf("unexpected raw size %d", len(raw))
	}
	last := m.Attributes[len(m.Attributes)-1]
	if last.Type != AttrMessageIntegrity || len(last.Value) != 20 {
		t.Fatal("last attribute is not MESSAGE-INTEGRITY")
	}
	// RFC 5389 15.4: HMAC over everything preceding the attribute, header
	// length pointing to the end of MESSAGE-INTEGRITY (it already does).
	h := stdhmac.New(sha1.New, []byte("secret"))
	h.Write(raw[:len(raw)-24])
	if want := h.Sum(nil); !bytes.Equal(last.Value, want) {
		t.Errorf("MESSAGE-INTEGRITY %x, RFC 5389 15.4 value %x", last.Value, want)
	}
	if err = key.Check(m); err != nil {
		t.Errorf("message signed by the library fails under the same key: %v", err)
	}
	d := new(Message)
	if err = Decode(raw, d); err != nil {
		t.Fatal(err)
	}
	if err = key.Check(d); err != nil {
		t.Errorf("re-decoded signed message fails under the same key: %v", err)
	}
}
