package stun

import (
	"encoding/binary"
	"testing"
)

// RFC 5389 15.6: the ERROR-CODE value starts with 21 reserved bits that
// "SHOULD be 0 ... Receivers MUST ignore these bits", followed by a 3-bit
// class (3..6) and an 8-bit number (0..99). A conforming encoder may therefore
// emit non-zero reserved bits. The five reserved bits that share a byte with
// the class are not masked by ErrorCodeAttribute.GetFrom.
func TestDemoErrorCodeReservedBits(t *testing.T) {
	for code := 300; code <= 699; code++ {
		for _, reserved := range []uint32{0, 1, 0x10, 0x1f, 0x1fffff} { // 21 reserved bits
			word := reserved<<11 | uint32(code/100)<<8 | uint32(code%100)
			value := make([]byte, 4)
			binary.BigEndian.PutUint32(value, word)
			value = append(value, "reason"...)

			// Independent RFC 5389 framing: header + one ERROR-CODE attribute.
			raw := make([]byte, 20, 20+4+12)
			binary.BigEndian.PutUint16(raw[0:], 0x0111) // binding error response
			binary.BigEndian.PutUint32(raw[4:], 0x2112A442)
			attr := []byte{0x00, 0x09, 0, byte(len(value))}
			attr = append(attr, value...)
			for len(attr)%4 != 0 {
				attr = append(attr, 0)
			}
			raw = append(raw, attr...)
			binary.BigEndian.PutUint16(raw[2:], uint16(len(attr)))

			m := new(Message)
			if _, err := m.Write(raw); err != nil {
				t.Fatal(err)
			}
			var got ErrorCodeAttribute
			if err := got.GetFrom(m); err != nil {
				t.Fatalf("code %d reserved %#x: %v", code, reserved, err)
			}
			if int(got.Code) != code || string(got.Reason) != "reason" {
				t.Fatalf("ERROR-CODE %d encoded per RFC 5389 15.6 with reserved bits %#x (value % x) read as code %d",
					code, reserved, value[:4], got.Code)
			}
		}
	}
}
