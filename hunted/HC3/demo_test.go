package stun

import (
	"bytes"
	"testing"
)

// RFC 5389 15.3: USERNAME "MUST contain a UTF-8 encoded sequence of less
// than 513 bytes", i.e. at most 512 bytes. The setter accepts 513.
func TestDemoUsername513Accepted(t *testing.T) {
	ok := bytes.Repeat([]byte{'u'}, 512)
	if err := NewUsername(string(ok)).AddTo(New()); err != nil {
		t.Fatalf("512-byte USERNAME must be accepted: %v", err)
	}
	tooLong := bytes.Repeat([]byte{'u'}, 513)
	m := New()
	if err := NewUsername(string(tooLong)).AddTo(m); err == nil {
		v, _ := m.Get(AttrUsername)
		t.Fatalf("USERNAME of %d bytes accepted and written (RFC 5389 15.3 allows less than 513 bytes)", len(v))
	}
}
