package stun

import "testing"

// Add accepts any attribute type, but the decoder maps the legacy type 0x8020
// to XOR-MAPPED-ADDRESS (0x0020). A message built with Add(0x8020, v) therefore
// holds an attribute of type 0x8020 in the struct while decoding its own raw
// bytes yields type 0x0020: struct and wire disagree and Equal is false.
func TestDemoAddLegacyXORTypeDisagreesWithDecode(t *testing.T) {
	m := new(Message)
	if err := m.Build(BindingSuccess, TransactionID); err != nil {
		t.Fatal(err)
	}
	m.Add(AttrType(0x8020), []byte{0, 1, 2, 3, 4, 5, 6, 7})

	d := new(Message)
	if err := Decode(m.Raw, d); err != nil {
		t.Fatal(err)
	}
	if got, want := d.Attributes[0].Type, m.Attributes[0].Type; got != want {
		t.Errorf("decoded attribute type 0x%04x, struct holds 0x%04x", uint16(got), uint16(want))
	}
	if !m.Equal(d) {
		t.Errorf("built message is not Equal to the decode of its own raw bytes")
	}
	if m.Contains(AttrType(0x8020)) != d.Contains(AttrType(0x8020)) {
		t.Errorf("Contains(0x8020): built %v, decoded %v", m.Contains(AttrType(0x8020)), d.Contains(AttrType(0x8020)))
	}
}
