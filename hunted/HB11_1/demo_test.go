package stun

import (
	"bytes"
	"testing"
)

// TextAttribute.AddToAs documents: "If maxLen is less than 0, no check is
// performed." Hence with a negative maxLen every text value is within the
// limits and must be accepted and written (C09: "every value within the
// limits is accepted"; C06: adding and reading back returns the value).
func TestDemoTextAttributeNegativeMaxLen(t *testing.T) {
	for _, maxLen := range []int{-1, -2, -1000} {
		for _, n := range []int{0, 1, 5, 763, 800} {
			val := bytes.Repeat([]byte{'a'}, n)
			m := new(Message)
			m.WriteHeader()
			if err := TextAttribute(val).AddToAs(m, AttrSoftware, maxLen); err != nil {
				t.Errorf("AddToAs(maxLen=%d) rejected a %d-byte value: %v", maxLen, n, err)
				continue
			}
			d := new(Message)
			if err := Decode(m.Raw, d); err != nil {
				t.Fatal(err)
			}
			var got TextAttribute
			if err := got.GetFromAs(d, AttrSoftware); err != nil || !bytes.Equal(got, val) {
				t.Errorf("round trip failed: %v", err)
			}
		}
	}
}
