package stun

import (
	"bytes"
	"encoding/binary"
	"testing"
)

// A Message that held a decoded message with attributes is reused to encode a
// header-only message from its fields (Type, TransactionID, empty Attributes)
// with Encode. A fresh Message with the same fields gives a 20-byte message
// with length 0; the reused one keeps the previous message's length in the
// header, so its raw bytes do not even decode.
func TestDemoEncodeKeepsStaleLength(t *testing.T) {
	prev := MustBuild(BindingRequest, TransactionID, NewUsername("alice"))

	m := new(Message)
	if err := Decode(prev.Raw, m); err != nil { // previous use
		t.Fatal(err)
	}
	id := [TransactionIDSize]byte{1, 2, 3, 4, 5, 6, 7, 8, 9, 10, 11, 12}

	m.Type = BindingSuccess // next use: encode a message without attributes
	m.TransactionID = id
	m.Attributes = m.Attributes[:0]
	m.Encode()

	fresh := &Message{Type: BindingSuccess, TransactionID: id}
	fresh.Encode()

	if !bytes.Equal(m.Raw, fresh.Raw) {
		t.Errorf("reused message encodes to %x, fresh message to %x", m.Raw, fresh.Raw)
	}
	if got := int(binary.BigEndian.Uint16(m.Raw[2:4])); got != len(m.Raw)-messageHeaderSize || got != int(m.Length) {
		t.Errorf("header length %d, bytes after header %d, m.Length %d", got, len(m.Raw)-messageHeaderSize, m.Length)
	}
	if err := Decode(m.Raw, new(Message)); err != nil {
		t.Errorf("encoded bytes do not decode: %v", err)
	}
}
