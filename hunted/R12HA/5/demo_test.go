package stun

import (
	"bytes"
	"testing"
)

// C01 (borderline): an exposed attribute value should be a view of exactly the
// declared bytes. Its length is, its capacity is not: it extends over the
// padding, the following attributes and the spare capacity of Raw, so an
// append to a value returned by Get / a typed getter silently rewrites the
// message.
func TestHuntValueCapacityExtendsOverNeighbours(t *testing.T) {
	src := MustBuild(BindingRequest, TransactionID, NewUsername("ab"), NewSoftware("xyz"))
	m := new(Message)
	if err := Decode(src.Raw, m); err != nil {
		t.Fatal(err)
	}
	before := append([]byte{}, m.Raw...)

	var u Username
	if err := u.GetFrom(m); err != nil {
		t.Fatal(err)
	}
	if cap(u) != len(u) {
		t.Errorf("USERNAME value: len %d cap %d", len(u), cap(u))
	}
	_ = append(u, "@example.org"...) // caller believes this copies
	if !bytes.Equal(before, m.Raw) {
		t.Errorf("message bytes changed by appending to a getter result:\n before %x\n after  %x", before, m.Raw)
	}
}
