package stun

import (
	"bytes"
	"testing"
)

// C03 (borderline): starting from a successfully decoded message, building
// operations that do not go through Add leave Raw as decoded: bytes after the
// declared length stay in Raw and non-zero padding stays non-zero.
func TestHuntDecodedThenSetTypeNotWellFormed(t *testing.T) {
	src := MustBuild(BindingRequest, TransactionID, NewSoftware("abc"))

	// (a) datagram longer than the declared message
	datagram := append(append([]byte{}, src.Raw...), 0xde, 0xad, 0xbe, 0xef)
	m := new(Message)
	if err := Decode(datagram, m); err != nil {
		t.Fatal(err)
	}
	m.SetType(BindingSuccess)
	NewTransactionIDSetter([12]byte{9}).AddTo(m) //nolint:errcheck
	m.WriteHeader()
	if got, want := len(m.Raw)-messageHeaderSize, int(bin.Uint16(m.Raw[2:4])); got != want {
		t.Errorf("header length %d but %d bytes follow the header", want, got)
	}
	d := new(Message)
	if err := Decode(m.Raw, d); err != nil {
		t.Fatal(err)
	}
	d.Encode()
	if !bytes.Equal(d.Raw, m.Raw) {
		t.Errorf("Raw is not the canonical encoding of the struct:\n raw   %x\n canon %x", m.Raw, d.Raw)
	}

	// (b) non-zero padding survives
	dirty := append([]byte{}, src.Raw...)
	dirty[len(dirty)-1] = 0xff // SOFTWARE "abc" + 1 padding byte
	if err := Decode(dirty, m); err != nil {
		t.Fatal(err)
	}
	m.SetType(BindingSuccess)
	if m.Raw[len(m.Raw)-1] != 0 {
		t.Errorf("padding byte is 0x%x after a building operation on a decoded message", m.Raw[len(m.Raw)-1])
	}
}
