package stun

import (
	"net"
	"testing"
)

// C03 (and C06 "every AddToAs attribute type"): attribute type 0x8020 is
// rewritten to 0x0020 by Decode (compatAttrType) but not by Add, so a built
// message whose struct holds 0x8020 does not decode to what the struct holds.
func TestHuntCompatAttrTypeStructMismatch(t *testing.T) {
	m := new(Message)
	m.WriteHeader()
	m.Add(AttrType(0x8020), []byte{1, 2, 3, 4})

	d := new(Message)
	if err := Decode(m.Raw, d); err != nil {
		t.Fatal(err)
	}
	if d.Attributes[0].Type != m.Attributes[0].Type {
		t.Errorf("struct holds attribute type 0x%x, decoding its own Raw yields 0x%x",
			uint16(m.Attributes[0].Type), uint16(d.Attributes[0].Type))
	}
	if !m.Equal(d) {
		t.Errorf("built message is not Equal to the decoding of its own Raw: %s vs %s", m, d)
	}

	// C06 flavour: AddToAs / GetFromAs with the same attribute type.
	b := new(Message)
	b.WriteHeader()
	in := XORMappedAddress{IP: net.IPv4(1, 2, 3, 4).To4(), Port: 1234}
	if err := in.AddToAs(b, AttrType(0x8020)); err != nil {
		t.Fatal(err)
	}
	var onBuilt XORMappedAddress
	if err := onBuilt.GetFromAs(b, AttrType(0x8020)); err != nil {
		t.Fatalf("on built message: %v", err)
	}
	if err := Decode(b.Raw, d); err != nil {
		t.Fatal(err)
	}
	var out XORMappedAddress
	if err := out.GetFromAs(d, AttrType(0x8020)); err != nil {
		t.Errorf("AddToAs(0x8020) then GetFromAs(0x8020) on the re-decoded message: %v", err)
	}
}
