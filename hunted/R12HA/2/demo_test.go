package stun

import "testing"

// C07: the outcome of Fingerprint.Check must depend only on the attribute
// value and the covered span (the message up to the FINGERPRINT attribute).
// It is derived from len(m.Raw) instead, so bytes after the declared message
// (which Decode accepts and keeps in Raw) change the outcome.
func TestHuntFingerprintCheckTrailingBytes(t *testing.T) {
	src := MustBuild(BindingRequest, NewTransactionIDSetter([12]byte{1, 2, 3}), NewSoftware("abc"), Fingerprint)

	exact := new(Message)
	if err := Decode(src.Raw, exact); err != nil {
		t.Fatal(err)
	}
	if err := Fingerprint.Check(exact); err != nil {
		t.Fatalf("exact datagram: %v", err)
	}

	for _, extra := range []int{1, 4, 8} {
		datagram := append(append([]byte{}, src.Raw...), make([]byte, extra)...)
		m := new(Message)
		if err := Decode(datagram, m); err != nil {
			t.Fatalf("decode with %d trailing bytes: %v", extra, err)
		}
		if !m.Equal(exact) {
			t.Fatal("same message expected")
		}
		if err := Fingerprint.Check(m); err != nil {
			t.Errorf("same message, same FINGERPRINT value, %d bytes after the declared length: %v", extra, err)
		}
	}

	// MESSAGE-INTEGRITY, for comparison, is computed from m.Length and is fine.
	key := NewShortTermIntegrity("pw")
	src = MustBuild(BindingRequest, TransactionID, key, Fingerprint)
	m := new(Message)
	if err := Decode(append(append([]byte{}, src.Raw...), 0, 0, 0, 0), m); err != nil {
		t.Fatal(err)
	}
	if err := key.Check(m); err != nil {
		t.Fatalf("integrity: %v", err)
	}
}
