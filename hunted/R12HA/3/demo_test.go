package stun

import "testing"

// C20: rebuilding with pointer setters must not allocate, independent of
// attribute sizes. UnknownAttributes.AddTo uses a 40-byte stack buffer
// ("20 should be enough") and grows it on the heap for longer lists.
func TestHuntUnknownAttributesAddToAllocates(t *testing.T) {
	typ := BindingError
	for _, n := range []int{20, 21, 40, 64} {
		list := make(UnknownAttributes, n)
		for i := range list {
			list[i] = AttrType(i + 1)
		}
		m := New()
		if err := m.Build(&typ, &list); err != nil { // warm up
			t.Fatal(err)
		}
		allocs := testing.AllocsPerRun(100, func() {
			if err := m.Build(&typ, &list); err != nil {
				t.Fatal(err)
			}
		})
		if allocs != 0 {
			t.Errorf("UNKNOWN-ATTRIBUTES with %d entries: %v allocs per Build with warm buffers", n, allocs)
		}
	}
}
