package stun

import (
	"net"
	"testing"
)

// C06/C07 (borderline): RFC 5389 15.1/15.2: "The first 8 bits of the
// MAPPED-ADDRESS MUST be set to 0 and MUST be ignored by receivers". The
// getters read the family as a 16-bit value including those bits.
func TestHuntAddressReservedByteNotIgnored(t *testing.T) {
	m := new(Message)
	m.WriteHeader()
	m.Add(AttrMappedAddress, []byte{0x80, 0x01, 0x04, 0xd2, 10, 0, 0, 1})
	m.Add(AttrXORMappedAddress, []byte{0x80, 0x01, 0x04, 0xd2, 10, 0, 0, 1})
	var ma MappedAddress
	if err := ma.GetFrom(m); err != nil {
		t.Errorf("MAPPED-ADDRESS: %v", err)
	} else if !ma.IP.Equal(net.IPv4(10, 0, 0, 1)) || ma.Port != 1234 {
		t.Errorf("MAPPED-ADDRESS: %v", ma)
	}
	var xa XORMappedAddress
	if err := xa.GetFrom(m); err != nil {
		t.Errorf("XOR-MAPPED-ADDRESS: %v", err)
	}
}
