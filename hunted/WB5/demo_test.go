package stun

import "testing"

// UnknownAttributes.AddTo builds the value in a 40-byte stack buffer
// ("20 should be enough") and appends to it, so a list of more than 20
// attribute types makes the setter allocate on every call, warm or not.
func TestDemoUnknownAttributesSetterAllocates(t *testing.T) {
	for _, n := range []int{20, 21, 64} {
		ua := make(UnknownAttributes, n)
		for i := range ua {
			ua[i] = AttrType(0x7000 + i)
		}
		ty := BindingError
		m := new(Message)
		if err := m.Build(&ty, &ua); err != nil {
			t.Fatal(err)
		}
		allocs := testing.AllocsPerRun(200, func() {
			if err := m.Build(&ty, &ua); err != nil {
				t.Fatal(err)
			}
		})
		if allocs != 0 {
			t.Errorf("Build with %d unknown attributes on a warm message: %v allocs/op, want 0", n, allocs)
		}
	}
}
