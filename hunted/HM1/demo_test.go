package stun

import (
	"bytes"
	"testing"
)

// C03: decode a message, give its FIRST attribute a longer value, Encode().
// Encode re-adds the attributes one by one into m.Raw while the remaining
// attribute values are still views of the old positions in that same buffer,
// so writing the longer first attribute overwrites the bytes of the following
// ones before they are copied. Encode-then-decode is not the identity on the
// content held in the struct.
func TestDemoEncodeCorruptsLaterAttributes(t *testing.T) {
	src := MustBuild(BindingRequest, NewUsername("aaaa"), NewSoftware("bbbb"), NewRealm("cccc"))
	m := new(Message)
	if err := Decode(src.Raw, m); err != nil {
		t.Fatal(err)
	}
	m.Attributes[0].Value = []byte("AAAAAAAAAAAA") // caller-owned memory, 12 bytes instead of 4
	m.Encode()

	// A fresh message given the same content.
	want := MustBuild(BindingRequest, NewTransactionIDSetter(m.TransactionID),
		NewUsername("AAAAAAAAAAAA"), NewSoftware("bbbb"), NewRealm("cccc"))
	got := new(Message)
	if err := Decode(m.Raw, got); err != nil {
		t.Fatal(err)
	}
	if !bytes.Equal(m.Raw, want.Raw) {
		t.Errorf("Encode produced\n%x\nwant\n%x", m.Raw, want.Raw)
	}
	for i, a := range want.Attributes {
		if !bytes.Equal(got.Attributes[i].Value, a.Value) {
			t.Errorf("attribute %d (%s): decoded %q, struct held %q before Encode", i, a.Type, got.Attributes[i].Value, a.Value)
		}
	}
}

// Same defect with nothing but a reordering of the decoded attributes.
func TestDemoEncodeSwapCorrupts(t *testing.T) {
	src := MustBuild(BindingRequest, NewUsername("aaaa"), NewSoftware("bbbb"))
	m := new(Message)
	if err := Decode(src.Raw, m); err != nil {
		t.Fatal(err)
	}
	m.Attributes[0], m.Attributes[1] = m.Attributes[1], m.Attributes[0]
	m.Encode()
	got := new(Message)
	if err := Decode(m.Raw, got); err != nil {
		t.Fatal(err)
	}
	if v, _ := got.Get(AttrUsername); string(v) != "aaaa" {
		t.Errorf("USERNAME after swap+Encode = %q, want %q", v, "aaaa")
	}
	if v, _ := got.Get(AttrSoftware); string(v) != "bbbb" {
		t.Errorf("SOFTWARE after swap+Encode = %q, want %q", v, "bbbb")
	}
}
