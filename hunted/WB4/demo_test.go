package stun

import "testing"

// MessageIntegrity.Check takes its scratch buffer from a sync.Pool but gives
// it back only when the MAC matches. Every check that ends in a mismatch
// (wrong key / forged MAC) therefore heap-allocates a new 20-byte array.
func TestDemoIntegrityMismatchAllocates(t *testing.T) {
	key := NewShortTermIntegrity("secret")
	src, err := Build(BindingRequest, NewTransactionIDSetter([12]byte{1}), NewUsername("user"), key, Fingerprint)
	if err != nil {
		t.Fatal(err)
	}
	m := new(Message)
	if err = Decode(src.Raw, m); err != nil {
		t.Fatal(err)
	}
	other := NewShortTermIntegrity("other")
	// warm up both outcomes
	for i := 0; i < 10; i++ {
		if err = key.Check(m); err != nil {
			t.Fatal(err)
		}
		if err = other.Check(m); err == nil {
			t.Fatal("wrong key verified")
		}
	}
	if n := testing.AllocsPerRun(200, func() { _ = key.Check(m) }); n != 0 {
		t.Errorf("matching check: %v allocs/op", n)
	}
	if n := testing.AllocsPerRun(200, func() { _ = other.Check(m) }); n != 0 {
		t.Errorf("mismatching check on a warm message: %v allocs/op, want 0", n)
	}
}
