package stun

import (
	"errors"
	"sync"
	"testing"
	"time"
)

// huntConn: Read blocks until closed; Write records.
type huntConn struct {
	mu     sync.Mutex
	writes [][]byte
	closed chan struct{}
	once   sync.Once
}

func (c *huntConn) Read(p []byte) (int, error) { <-c.closed; return 0, errors.New("closed") }
func (c *huntConn) Write(p []byte) (int, error) {
	c.mu.Lock()
	c.writes = append(c.writes, append([]byte(nil), p...))
	c.mu.Unlock()
	return len(p), nil
}
func (c *huntConn) Close() error { c.once.Do(func() { close(c.closed) }); return nil }
func (c *huntConn) n() int       { c.mu.Lock(); defer c.mu.Unlock(); return len(c.writes) }

// huntAgent wraps the real Agent; on the re-registration (retransmission) of a
// transaction it lets the response be processed first, i.e. it realises the
// schedule "reader goroutine delivers the response after the collector has
// released c.mux in handleAgentCallback and before it calls a.Start".
type huntAgent struct {
	*Agent
	mu     sync.Mutex
	starts map[transactionID]int
	resp   *Message
}

func (a *huntAgent) Start(id [TransactionIDSize]byte, d time.Time) error {
	a.mu.Lock()
	a.starts[id]++
	n := a.starts[id]
	a.mu.Unlock()
	if n == 2 && a.resp != nil {
		_ = a.Agent.Process(a.resp) // response arrives now
	}
	return a.Agent.Start(id, d)
}

type huntNoCollector struct{ f func(time.Time) }

func (c *huntNoCollector) Start(_ time.Duration, f func(time.Time)) error { c.f = f; return nil }
func (c *huntNoCollector) Close() error                                   { return nil }

type huntClock struct {
	mu sync.Mutex
	t  time.Time
}

func (c *huntClock) Now() time.Time { c.mu.Lock(); defer c.mu.Unlock(); return c.t }
func (c *huntClock) add(d time.Duration) time.Time {
	c.mu.Lock()
	defer c.mu.Unlock()
	c.t = c.t.Add(d)
	return c.t
}

func TestHuntWriteAfterResponseInRetransmitWindow(t *testing.T) {
	conn := &huntConn{closed: make(chan struct{})}
	ag := &huntAgent{Agent: NewAgent(nil), starts: map[transactionID]int{}}
	coll := &huntNoCollector{}
	clk := &huntClock{t: time.Unix(1000, 0)}
	var fbMu sync.Mutex
	var fallback []Event
	cl, err := NewClient(conn, WithAgent(ag), WithCollector(coll), WithClock(clk),
		WithRTO(time.Second), WithHandler(func(e Event) {
			fbMu.Lock()
			fallback = append(fallback, e)
			fbMu.Unlock()
		}))
	if err != nil {
		t.Fatal(err)
	}
	defer cl.Close()

	req := MustBuild(TransactionID, BindingRequest)
	resp := MustBuild(NewTransactionIDSetter(req.TransactionID), BindingSuccess)
	ag.resp = resp

	var calls []Event
	if err := cl.Start(req, func(e Event) { calls = append(calls, e) }); err != nil {
		t.Fatal(err)
	}
	if conn.n() != 1 {
		t.Fatalf("writes after Start = %d", conn.n())
	}
	// first deadline passes: collector tick -> retransmission; the response is
	// processed in the window before the agent re-registration.
	coll.f(clk.add(time.Second + time.Millisecond))
	if len(calls) != 1 || calls[0].Error != nil || calls[0].Message == nil {
		t.Fatalf("handler calls: %+v", calls)
	}
	// The transaction has been ended by the response. C11: nothing more is
	// written for it.
	if n := conn.n(); n != 1 {
		t.Errorf("C11: request written %d times; the 2nd write happened after the response had completed the transaction", n)
	}
	// and the agent must not keep a registration for the finished transaction
	// which later surfaces as a timeout of an unknown transaction.
	for i := 0; i < 20; i++ {
		coll.f(clk.add(10 * time.Second))
	}
	fbMu.Lock()
	defer fbMu.Unlock()
	for _, e := range fallback {
		if e.TransactionID == req.TransactionID {
			t.Errorf("fallback handler got event for completed transaction: err=%v msg=%v", e.Error, e.Message)
		}
	}
	if len(calls) != 1 {
		t.Errorf("handler called %d times", len(calls))
	}
}
