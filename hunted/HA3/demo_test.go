package stun

// Same defect as demos 1 and 2, reached with the stock Agent, the stock ticker
// collector and the system clock; nothing is parked. One goroutine calls
// Do(m, f) in a loop with the SAME message (same transaction ID), each call
// after the previous one has returned. The server answers after 4 ms (RTO is
// 2 ms, so a retransmission is attempted); a retransmission Write takes 6 ms
// and then fails. The failure of a retransmission that belonged to an earlier,
// already completed Do is applied to the transaction of a later Do: that Do
// reports the foreign error or never returns.

import (
	"errors"
	"io"
	"sync"
	"sync/atomic"
	"testing"
	"time"
)

type h9cErr struct{ epoch int32 }

func (e h9cErr) Error() string { return "retransmission write failed" }

type h9cConn struct {
	epoch    int32 // number of the Do call in progress
	awaiting int32 // 1 while a request is waiting for its response
	reads    chan []byte
	closed   chan struct{}
	once     sync.Once
}

func (c *h9cConn) Write(b []byte) (int, error) {
	epoch := atomic.LoadInt32(&c.epoch)
	if !atomic.CompareAndSwapInt32(&c.awaiting, 0, 1) {
		// a retransmission: slow, then fails
		time.Sleep(6 * time.Millisecond)

		return 0, h9cErr{epoch: epoch}
	}
	m := new(Message)
	if _, err := m.Write(b); err != nil {
		return 0, err
	}
	res := MustBuild(NewTransactionIDSetter(m.TransactionID), BindingSuccess)
	go func() {
		time.Sleep(4 * time.Millisecond)
		atomic.StoreInt32(&c.awaiting, 0)
		select {
		case c.reads <- res.Raw:
		case <-c.closed:
		}
	}()

	return len(b), nil
}

func (c *h9cConn) Read(b []byte) (int, error) {
	select {
	case d := <-c.reads:
		return copy(b, d), nil
	case <-c.closed:
		return 0, io.EOF
	}
}

func (c *h9cConn) Close() error {
	c.once.Do(func() { close(c.closed) })

	return nil
}

func TestHunt9DoLoopSameMessage(t *testing.T) {
	conn := &h9cConn{reads: make(chan []byte, 16), closed: make(chan struct{})}
	c, err := NewClient(conn, WithRTO(2*time.Millisecond), WithTimeoutRate(time.Millisecond))
	if err != nil {
		t.Fatal(err)
	}
	m := MustBuild(TransactionID, BindingRequest)
	failed := make(chan string, 1)
	done := make(chan struct{})
	var current int32
	go func() {
		defer close(done)
		for k := int32(1); k <= 300; k++ {
			atomic.StoreInt32(&current, k)
			atomic.StoreInt32(&conn.epoch, k)
			calls := 0
			var foreign *h9cErr
			doErr := c.Do(m, func(e Event) {
				calls++
				var we h9cErr
				if errors.As(e.Error, &we) && we.epoch != k {
					foreign = &we
				}
			})
			if doErr != nil {
				failed <- "Do: " + doErr.Error()

				return
			}
			if calls != 1 {
				failed <- "callback not invoked exactly once"

				return
			}
			if foreign != nil {
				t.Logf("Do #%d completed with the write error of a retransmission started during Do #%d", k, foreign.epoch)
				failed <- "Do completed with the error of a retransmission that belonged to an earlier, completed Do"

				return
			}
		}
	}()
	// watchdog: a Do call takes a few milliseconds; 3 s without progress is a hang
	last, lastChange := int32(0), time.Now()
	for {
		select {
		case <-done:
			_ = c.Close()
			select {
			case msg := <-failed:
				t.Fatal(msg)
			default:
			}

			return
		case <-time.After(50 * time.Millisecond):
		}
		if cur := atomic.LoadInt32(&current); cur != last {
			last, lastChange = cur, time.Now()
		}
		if time.Since(lastChange) > 3*time.Second {
			_ = c.Close()
			select {
			case <-done:
				t.Fatalf("Do #%d returned only after Close", last)
			case <-time.After(2 * time.Second):
				t.Fatalf("Do #%d never returned, not even after Close", last)
			}
		}
	}
}
