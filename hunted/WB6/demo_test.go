package stun

import (
	"encoding/binary"
	"testing"
)

// Decode keeps bytes that follow the declared length in m.Raw. Building
// operations that do not go through Add (SetType, transaction-ID setters,
// WriteHeader) leave them there, so the message that is built - and that
// WriteTo / MarshalBinary / CloneTo hand on - is longer than its header says.
func TestDemoTrailingBytesSurviveBuilding(t *testing.T) {
	src, err := Build(BindingRequest, NewTransactionIDSetter([12]byte{1, 2, 3}), NewSoftware("ab"))
	if err != nil {
		t.Fatal(err)
	}
	wire := append(append([]byte{}, src.Raw...), 0xde, 0xad, 0xbe, 0xef)
	m := new(Message)
	if err = Decode(wire, m); err != nil {
		t.Fatal(err)
	}
	m.SetType(BindingSuccess)
	if err = NewTransactionIDSetter([12]byte{9}).AddTo(m); err != nil {
		t.Fatal(err)
	}
	m.WriteHeader()
	declared := int(binary.BigEndian.Uint16(m.Raw[2:4]))
	if len(m.Raw)-20 != declared {
		t.Errorf("header length %d, but %d bytes follow the header", declared, len(m.Raw)-20)
	}
}
