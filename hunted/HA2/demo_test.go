package stun

// C10/C12: while the collector's callback prepares a retransmission (the
// transaction stays registered in the client table, lock released, agent.Start
// not yet called), the response completes the transaction and the same ID is
// started again. The collector's agent.Start then fails with
// ErrTransactionExists and its error path, keyed by ID only, unregisters the
// NEW transaction and completes a stale, already released clientTransaction.
// No write ever fails in this history.

import (
	"io"
	"sync"
	"sync/atomic"
	"testing"
	"time"
)

type h9bClock struct {
	mu sync.Mutex
	t  time.Time
}

func (c *h9bClock) Now() time.Time {
	c.mu.Lock()
	defer c.mu.Unlock()

	return c.t
}

func (c *h9bClock) add(d time.Duration) time.Time {
	c.mu.Lock()
	defer c.mu.Unlock()
	c.t = c.t.Add(d)

	return c.t
}

// h9bCollector is ticked by hand; Close waits for a running tick.
type h9bCollector struct {
	mu sync.Mutex
	f  func(time.Time)
}

func (c *h9bCollector) Start(_ time.Duration, f func(time.Time)) error {
	c.f = f

	return nil
}

func (c *h9bCollector) tick(t time.Time) {
	c.mu.Lock()
	defer c.mu.Unlock()
	if c.f != nil {
		c.f(t)
	}
}

func (c *h9bCollector) Close() error {
	c.mu.Lock()
	c.f = nil
	c.mu.Unlock()

	return nil
}

type h9bConn struct {
	writes int32
	reads  chan []byte
	closed chan struct{}
	once   sync.Once
}

func (c *h9bConn) Write(b []byte) (int, error) {
	atomic.AddInt32(&c.writes, 1)

	return len(b), nil
}

func (c *h9bConn) Read(b []byte) (int, error) {
	select {
	case d := <-c.reads:
		return copy(b, d), nil
	case <-c.closed:
		return 0, io.EOF
	}
}

func (c *h9bConn) Close() error {
	c.once.Do(func() { close(c.closed) })

	return nil
}

// h9bAgent is the stock Agent; its second Start call is merely slow (it waits
// for release before it is forwarded).
type h9bAgent struct {
	*Agent
	starts  int32
	parked  chan struct{}
	release chan struct{}
}

func (a *h9bAgent) Start(id [TransactionIDSize]byte, deadline time.Time) error {
	if atomic.AddInt32(&a.starts, 1) == 2 {
		close(a.parked)
		<-a.release
	}

	return a.Agent.Start(id, deadline)
}

func TestHunt9RetransmitStartAfterIDReuse(t *testing.T) {
	conn := &h9bConn{reads: make(chan []byte), closed: make(chan struct{})}
	clk := &h9bClock{t: time.Unix(1000, 0)}
	coll := &h9bCollector{}
	ag := &h9bAgent{Agent: NewAgent(nil), parked: make(chan struct{}), release: make(chan struct{})}
	c, err := NewClient(conn, WithClock(clk), WithCollector(coll), WithRTO(time.Second), WithAgent(ag))
	if err != nil {
		t.Fatal(err)
	}
	id := [TransactionIDSize]byte{1, 2, 3, 4, 5, 6, 7, 8, 9, 10, 11, 12}
	req := MustBuild(NewTransactionIDSetter(id), BindingRequest)
	res := MustBuild(NewTransactionIDSetter(id), BindingSuccess)

	type outcome struct {
		hasMsg bool
		err    error
	}
	h1 := make(chan outcome, 8)
	h2 := make(chan outcome, 8)
	mk := func(ch chan outcome) Handler {
		return func(e Event) { ch <- outcome{hasMsg: e.Message != nil, err: e.Error} }
	}

	// 1. first transaction with this id
	if err = c.Start(req, mk(h1)); err != nil {
		t.Fatal(err)
	}
	// 2. first deadline passes; the tick prepares the retransmission and is
	//    slow in agent.Start
	tickDone := make(chan struct{})
	now := clk.add(1500 * time.Millisecond)
	go func() { coll.tick(now); close(tickDone) }()
	select {
	case <-ag.parked:
	case <-time.After(5 * time.Second):
		t.Fatal("setup: retransmission not reached")
	}
	// 3. the response arrives: the first transaction completes
	conn.reads <- res.Raw
	select {
	case o := <-h1:
		if !o.hasMsg || o.err != nil {
			t.Fatalf("setup: first handler got {message:%v error:%v}", o.hasMsg, o.err)
		}
	case <-time.After(5 * time.Second):
		t.Fatal("setup: first handler not called")
	}
	// 4. the id is used again, after completion
	if err = c.Start(req, mk(h2)); err != nil {
		t.Fatalf("second Start: %v", err)
	}
	// 5. the tick goes on
	close(ag.release)
	select {
	case <-tickDone:
	case <-time.After(5 * time.Second):
		t.Fatal("tick did not finish")
	}
	// 6. the response to the second transaction arrives while it is in flight
	select {
	case conn.reads <- res.Raw:
	case <-time.After(5 * time.Second):
		t.Fatal("reader gone")
	}
	var got []outcome
	select {
	case o := <-h2:
		got = append(got, o)
	case <-time.After(2 * time.Second):
	}
	if err = c.Close(); err != nil {
		t.Fatalf("Close: %v", err)
	}
	for len(h2) > 0 {
		got = append(got, <-h2)
	}
	for len(h1) > 0 {
		o := <-h1
		t.Errorf("first handler invoked a second time: {message:%v error:%v}", o.hasMsg, o.err)
	}
	if len(got) != 1 {
		t.Fatalf("second handler invoked %d times (want exactly once)", len(got))
	}
	if !got[0].hasMsg || got[0].err != nil {
		t.Fatalf("second handler did not get its response but {message:%v error:%v} "+
			"(no write failed, clock not advanced since its Start)", got[0].hasMsg, got[0].err)
	}
}
