package stun

import "testing"

// RFC 5389 15.3: USERNAME "MUST contain a UTF-8 encoded sequence of less than
// 513 bytes", i.e. at most 512. The setter accepts 513 bytes (maxUsernameB is
// used as an inclusive bound) and emits an attribute the RFC forbids.
func TestDemoUsername513Accepted(t *testing.T) {
	m := new(Message)
	if err := m.Build(BindingRequest, TransactionID, Username(make([]byte, 512))); err != nil {
		t.Fatalf("512-byte username must be accepted: %v", err)
	}
	before := append([]byte(nil), m.Raw...)
	err := Username(make([]byte, 513)).AddTo(m)
	if err == nil {
		t.Errorf("513-byte USERNAME accepted (RFC 5389: less than 513 bytes); message grew from %d to %d bytes", len(before), len(m.Raw))
	}
}
