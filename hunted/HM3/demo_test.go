package stun

import (
	"bytes"
	"testing"
)

// C08: Build into a Message that previously held a decoded message, with
// setters that are RawAttributes taken from that message (echoing two request
// attributes in another order). A fresh Message given the same setters yields
// other raw bytes: Build overwrites the old buffer while the second setter
// still reads its value from it.
func TestDemoBuildFromOwnAttributes(t *testing.T) {
	src := MustBuild(BindingRequest, NewUsername("aaaa"), NewSoftware("bbbb"))
	m := new(Message)
	if err := Decode(src.Raw, m); err != nil {
		t.Fatal(err)
	}
	a0, a1 := m.Attributes[0], m.Attributes[1]
	// what a fresh Message gives (values copied first so that they stay intact)
	c0 := RawAttribute{Type: a0.Type, Value: append([]byte{}, a0.Value...)}
	c1 := RawAttribute{Type: a1.Type, Value: append([]byte{}, a1.Value...)}
	fresh := &Message{Type: m.Type, TransactionID: m.TransactionID}
	if err := fresh.Build(c1, c0); err != nil {
		t.Fatal(err)
	}
	if err := m.Build(a1, a0); err != nil {
		t.Fatal(err)
	}
	if !bytes.Equal(m.Raw, fresh.Raw) {
		t.Errorf("reused message:\n%x\nfresh message:\n%x", m.Raw, fresh.Raw)
	}
}
